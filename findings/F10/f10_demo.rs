//! F10 demonstration: a pool buffer the kernel selected for a read whose future was dropped while in flight is never
//! handed back to the kernel: the pool shrinks by one buffer per abandoned read until reads fail with ENOBUFS.
use std::future::Future;
use std::pin::pin;
use std::task::{Context, Poll, Waker};
use std::time::Duration;

use a10::fs::OpenOptions;
use a10::io::ReadBufPool;

fn block_on<F: Future>(ring: &mut a10::Ring, fut: F) -> F::Output {
    let mut fut = pin!(fut);
    let mut ctx = Context::from_waker(Waker::noop());
    loop {
        if let Poll::Ready(out) = fut.as_mut().poll(&mut ctx) {
            return out;
        }
        ring.poll(Some(Duration::from_millis(50))).unwrap();
    }
}

#[test]
fn abandoned_pool_reads_lose_buffers() {
    let mut ring = a10::Ring::new().unwrap();
    let sq = ring.sq();
    let pool = ReadBufPool::new(sq.clone(), 2, 64).unwrap();
    let file = block_on(&mut ring, OpenOptions::new().open(sq, "Cargo.toml".into())).unwrap();
    for _ in 0..2 {
        let mut read = Box::pin(file.read(pool.get()).from(0));
        let mut ctx = Context::from_waker(Waker::noop());
        assert!(read.as_mut().poll(&mut ctx).is_pending()); // queued
        drop(read); // abandoned while in flight (cancel queued behind it)
        ring.poll(Some(Duration::from_millis(10))).unwrap(); // the read completes with a selected buffer
        ring.poll(Some(Duration::from_millis(10))).unwrap();
    }
    // Both buffers of the pool were selected by the kernel for operations nobody is waiting for; no ReadBuf owns
    // them, so the pool must still be able to serve a read.
    let buf = block_on(&mut ring, file.read(pool.get()).from(0)).expect("pool has no buffers left");
    assert!(!buf.is_empty());
}
