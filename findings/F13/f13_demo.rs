//! F13 demonstration (C03): an operation that returned Pending because the submission queue was full is never woken
//! when the queue is drained by something other than a successful `io_uring_enter` of `Ring::poll` - here the
//! kernel's submission thread (SQPOLL); the same state arises without SQPOLL when the waker is registered just after
//! another thread's `Ring::poll` submitted everything.  Every later `Ring::poll` times out in the kernel (nothing
//! completes), and the timeout arm of `Shared::enter` skipped `wake_blocked_futures`.
use std::future::Future;
use std::sync::Arc;
use std::sync::atomic::{AtomicUsize, Ordering};
use std::task::{Context, Wake, Waker};
use std::time::Duration;

struct Count(AtomicUsize);
impl Wake for Count {
    fn wake(self: Arc<Self>) {
        self.0.fetch_add(1, Ordering::SeqCst);
    }
}

#[test]
fn queue_full_future_is_woken_once_there_is_room() {
    let mut ring = a10::Ring::config()
        .with_submission_queue_size(2)
        .with_kernel_thread()
        .with_idle_timeout(Duration::from_millis(1))
        .build()
        .unwrap();
    let sq = ring.sq();
    // Let the kernel's submission thread go to sleep, so that queued entries stay in the queue.
    std::thread::sleep(Duration::from_millis(100));

    // Three reads that never complete (nothing is ever written to the pipe).
    let (rd, _wr) = std::io::pipe().unwrap();
    let fd = a10::AsyncFd::new(rd.into(), sq);
    let wakes: [Arc<Count>; 3] = std::array::from_fn(|_| Arc::new(Count(AtomicUsize::new(0))));
    let mut reads = [
        Box::pin(fd.read(Vec::with_capacity(8))),
        Box::pin(fd.read(Vec::with_capacity(8))),
        Box::pin(fd.read(Vec::with_capacity(8))),
    ];
    for (read, wake) in reads.iter_mut().zip(&wakes) {
        let waker = Waker::from(wake.clone());
        assert!(read.as_mut().poll(&mut Context::from_waker(&waker)).is_pending());
    }
    // The first two fill the queue (2 entries); the third found it full and waits for room.

    // `Ring::poll`: wakes the submission thread, which takes both entries out of the queue: there is room now.
    // Nothing completes, so every call times out in the kernel.
    for _ in 0..10 {
        ring.poll(Some(Duration::from_millis(20))).unwrap();
    }
    assert_eq!(wakes[0].0.load(Ordering::SeqCst) + wakes[1].0.load(Ordering::SeqCst), 0, "nothing completed");
    assert!(
        wakes[2].0.load(Ordering::SeqCst) >= 1,
        "the future that found the queue full was not woken by 10 Ring::poll calls with room in the queue"
    );
}
