//! F14 demonstration: receiving a datagram from an unbound (unnamed) Unix socket.  The kernel reports an address
//! length of 0 and writes nothing; `SocketAddress::init` for Unix addresses then computed `0 - offsetof(sun_path)`:
//! a debug assertion / overflow panic in debug builds, an out-of-bounds slice in release builds.
use std::future::Future;
use std::os::unix::net::{SocketAddr, UnixDatagram};
use std::pin::pin;
use std::task::{Context, Poll, Waker};
use std::time::Duration;

fn block_on<F: Future>(ring: &mut a10::Ring, fut: F) -> F::Output {
    let mut fut = pin!(fut);
    let mut ctx = Context::from_waker(Waker::noop());
    loop {
        if let Poll::Ready(out) = fut.as_mut().poll(&mut ctx) {
            return out;
        }
        ring.poll(Some(Duration::from_millis(50))).unwrap();
    }
}

#[test]
fn recv_from_unnamed_sender() {
    let mut ring = a10::Ring::new().unwrap();
    let sq = ring.sq();
    let path = std::env::temp_dir().join(format!("a10-f14-{}.sock", std::process::id()));
    let _ = std::fs::remove_file(&path);
    let addr = SocketAddr::from_pathname(&path).unwrap();
    let socket = block_on(&mut ring, a10::net::socket(sq, a10::net::Domain::UNIX, a10::net::Type::DGRAM, None)).unwrap();
    block_on(&mut ring, socket.bind(addr.clone())).unwrap();
    // The bound path name reads back as itself.
    let local: SocketAddr = block_on(&mut ring, socket.local_addr()).unwrap();
    assert_eq!(local.as_pathname(), Some(path.as_path()));
    let peer = UnixDatagram::unbound().unwrap();
    peer.send_to_addr(b"hi", &addr).unwrap();
    let (buf, from, _flags): (Vec<u8>, SocketAddr, i32) = block_on(&mut ring, socket.recv_from(Vec::with_capacity(8))).unwrap();
    assert_eq!(buf, b"hi");
    assert!(from.is_unnamed(), "sender is an unnamed socket");
    let _ = std::fs::remove_file(&path);
}
