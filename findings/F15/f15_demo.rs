//! F15 demonstration (C10): `read_n` / `recv_n` with a `ReadBufPool` buffer.  The internal `ReadNBuf` wrapper does not
//! forward the (hidden) `BufMut::parts` method, so instead of a buffer-select read a read of 0 bytes at address 0 is
//! submitted; the kernel returns 0 and `read_n` reports `UnexpectedEof` although the data is there.
use std::future::Future;
use std::io::Write;
use std::pin::pin;
use std::task::{Context, Poll, Waker};
use std::time::Duration;

use a10::io::ReadBufPool;

fn block_on<F: Future>(ring: &mut a10::Ring, fut: F) -> F::Output {
    let mut fut = pin!(fut);
    let mut ctx = Context::from_waker(Waker::noop());
    loop {
        if let Poll::Ready(out) = fut.as_mut().poll(&mut ctx) {
            return out;
        }
        ring.poll(Some(Duration::from_millis(50))).unwrap();
    }
}

#[test]
fn read_n_into_pool_buffer() {
    let mut ring = a10::Ring::new().unwrap();
    let sq = ring.sq();
    let pool = ReadBufPool::new(sq.clone(), 2, 64).unwrap();
    let (rd, mut wr) = std::io::pipe().unwrap();
    wr.write_all(b"hello ").unwrap();
    wr.write_all(b"world").unwrap();
    let fd = a10::AsyncFd::new(rd.into(), sq);
    // Control: a plain read with a pool buffer sees the data ...
    let buf = block_on(&mut ring, fd.read(pool.get())).unwrap();
    assert_eq!(&*buf, b"hello world");
    drop(buf);
    // ... read_n must too (at least 11 bytes, they are all in the pipe).
    wr.write_all(b"hello world").unwrap();
    let buf = block_on(&mut ring, fd.read_n(pool.get(), 11)).expect("read_n with a pool buffer");
    assert_eq!(&*buf, b"hello world");
}

#[test]
fn recv_n_into_pool_buffer() {
    let mut ring = a10::Ring::new().unwrap();
    let sq = ring.sq();
    let pool = ReadBufPool::new(sq.clone(), 2, 64).unwrap();
    let (a, b) = std::os::unix::net::UnixStream::pair().unwrap();
    (&a).write_all(b"hello world").unwrap();
    let fd = a10::AsyncFd::new(b.into(), sq);
    let buf = block_on(&mut ring, fd.recv_n(pool.get(), 11)).expect("recv_n with a pool buffer");
    assert_eq!(&*buf, b"hello world");
}
