//! F16 demonstration (C12): a regular-descriptor `AsyncFd` dropped AFTER its `Ring` only queues a CLOSE request in the
//! submission queue; nobody will ever submit it (the Ring is gone), so the descriptor stays open for the rest of the
//! process.
use std::future::Future;
use std::pin::pin;
use std::task::{Context, Poll, Waker};
use std::time::Duration;

fn open_fds() -> usize {
    std::fs::read_dir("/proc/self/fd").unwrap().count()
}

fn block_on<F: Future>(ring: &mut a10::Ring, fut: F) -> F::Output {
    let mut fut = pin!(fut);
    let mut ctx = Context::from_waker(Waker::noop());
    loop {
        if let Poll::Ready(out) = fut.as_mut().poll(&mut ctx) {
            return out;
        }
        ring.poll(Some(Duration::from_millis(50))).unwrap();
    }
}

#[test]
fn async_fd_dropped_after_the_ring_is_closed() {
    let before = open_fds();
    let mut ring = a10::Ring::new().unwrap();
    let sq = ring.sq();
    let mut fds = Vec::new();
    for _ in 0..5 {
        let fd = block_on(&mut ring, a10::fs::OpenOptions::new().open(sq.clone(), "Cargo.toml".into())).unwrap();
        fds.push(fd);
    }
    drop(sq);
    drop(ring); // Ring first ...
    drop(fds); // ... then the descriptors (each still holds the submission queue alive).
    assert_eq!(open_fds(), before, "descriptors of AsyncFds dropped after the Ring were left open");
}

#[test]
fn async_fd_dropped_before_the_ring_is_closed() {
    let before = open_fds();
    let mut ring = a10::Ring::new().unwrap();
    let sq = ring.sq();
    let mut fds = Vec::new();
    for _ in 0..5 {
        let fd = block_on(&mut ring, a10::fs::OpenOptions::new().open(sq.clone(), "Cargo.toml".into())).unwrap();
        fds.push(fd);
    }
    drop(sq);
    drop(fds);
    drop(ring);
    assert_eq!(open_fds(), before, "control: dropped before the Ring");
}

#[test]
fn async_fd_dropped_after_a_kernel_thread_ring() {
    let before = open_fds();
    let mut ring = a10::Ring::config().with_kernel_thread().with_idle_timeout(Duration::from_millis(1)).build().unwrap();
    let sq = ring.sq();
    let mut fds = Vec::new();
    for _ in 0..5 {
        let fd = block_on(&mut ring, a10::fs::OpenOptions::new().open(sq.clone(), "Cargo.toml".into())).unwrap();
        fds.push(fd);
    }
    std::thread::sleep(Duration::from_millis(50)); // submission thread asleep
    drop(sq);
    drop(ring);
    drop(fds);
    std::thread::sleep(Duration::from_millis(50));
    assert_eq!(open_fds(), before, "descriptors of AsyncFds dropped after the (SQPOLL) Ring were left open");
}
