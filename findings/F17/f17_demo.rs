//! F17 demonstration (C13): `read` with a limited pool buffer (`pool.get().limit(n)`).  `LimitedBuf` does not forward
//! the hidden `BufMut::parts`, so a zero-length read at address 0 is submitted instead of a buffer-select read:
//! the call returns an empty buffer although read(2) with the same arguments returns min(n, available) bytes.
use std::future::Future;
use std::io::Write;
use std::pin::pin;
use std::task::{Context, Poll, Waker};
use std::time::Duration;

use a10::io::{BufMut, ReadBufPool};

fn block_on<F: Future>(ring: &mut a10::Ring, fut: F) -> F::Output {
    let mut fut = pin!(fut);
    let mut ctx = Context::from_waker(Waker::noop());
    loop {
        if let Poll::Ready(out) = fut.as_mut().poll(&mut ctx) {
            return out;
        }
        ring.poll(Some(Duration::from_millis(50))).unwrap();
    }
}

#[test]
fn read_into_limited_pool_buffer() {
    let mut ring = a10::Ring::new().unwrap();
    let sq = ring.sq();
    let pool = ReadBufPool::new(sq.clone(), 2, 64).unwrap();
    let (rd, mut wr) = std::io::pipe().unwrap();
    wr.write_all(b"hello world").unwrap();
    let fd = a10::AsyncFd::new(rd.into(), sq);
    let buf = block_on(&mut ring, fd.read(pool.get().limit(5))).unwrap().into_inner();
    assert_eq!(&*buf, b"hello", "read(fd, buf, 5) with 11 bytes available returns 5 bytes");
}
