//! F8 demonstration: a10 passes sizeof(sockaddr_un) as the length of every Unix address, so an abstract name "abc"
//! is bound / connected to as "abc" followed by 104 NUL bytes: a different address than the same
//! `std::os::unix::net::SocketAddr` means for bind(2)/connect(2) (the property: same effect as the system call).
use std::future::Future;
use std::os::fd::AsRawFd;
use std::os::linux::net::SocketAddrExt;
use std::os::unix::net::{SocketAddr, UnixDatagram};
use std::pin::pin;
use std::task::{Context, Poll, Waker};
use std::time::Duration;

fn block_on<F: Future>(ring: &mut a10::Ring, fut: F) -> F::Output {
    let mut fut = pin!(fut);
    let mut ctx = Context::from_waker(Waker::noop());
    loop {
        if let Poll::Ready(out) = fut.as_mut().poll(&mut ctx) {
            return out;
        }
        ring.poll(Some(Duration::from_millis(50))).unwrap();
    }
}

fn unique(tag: &str) -> Vec<u8> {
    format!("a10-f8-{tag}-{}", std::process::id()).into_bytes()
}

/// The name getsockname(2) reports for the socket a10 bound is the name that was asked for.
#[test]
fn bind_abstract_name_is_the_name_given() {
    let mut ring = a10::Ring::new().unwrap();
    let sq = ring.sq();
    let name = unique("bind");
    let addr = SocketAddr::from_abstract_name(&name).unwrap();
    let socket = block_on(&mut ring, a10::net::socket(sq, a10::net::Domain::UNIX, a10::net::Type::DGRAM, None)).unwrap();
    block_on(&mut ring, socket.bind(addr)).unwrap();
    // Ask the kernel (plain getsockname(2)) what the socket is bound to.
    let mut storage: libc::sockaddr_un = unsafe { std::mem::zeroed() };
    let mut len = size_of::<libc::sockaddr_un>() as libc::socklen_t;
    let fd = socket.as_fd().unwrap().as_raw_fd();
    assert_eq!(unsafe { libc::getsockname(fd, (&raw mut storage).cast(), &mut len) }, 0);
    let got = len as usize - std::mem::offset_of!(libc::sockaddr_un, sun_path) - 1;
    assert_eq!(got, name.len(), "length of the abstract name the socket is bound to");
}

/// A std socket can reach the a10-bound socket under the same address.
#[test]
fn std_peer_reaches_a10_bound_abstract_address() {
    let mut ring = a10::Ring::new().unwrap();
    let sq = ring.sq();
    let name = unique("reach");
    let addr = SocketAddr::from_abstract_name(&name).unwrap();
    let socket = block_on(&mut ring, a10::net::socket(sq, a10::net::Domain::UNIX, a10::net::Type::DGRAM, None)).unwrap();
    block_on(&mut ring, socket.bind(addr.clone())).unwrap();
    let peer = UnixDatagram::unbound().unwrap();
    peer.send_to_addr(b"hi", &addr).expect("std peer cannot reach the address a10 bound");
}

/// a10 connect reaches a std-bound socket under the same address.
#[test]
fn a10_connect_reaches_std_bound_abstract_address() {
    let mut ring = a10::Ring::new().unwrap();
    let sq = ring.sq();
    let name = unique("connect");
    let addr = SocketAddr::from_abstract_name(&name).unwrap();
    let _listener = UnixDatagram::bind_addr(&addr).unwrap();
    let socket = block_on(&mut ring, a10::net::socket(sq, a10::net::Domain::UNIX, a10::net::Type::DGRAM, None)).unwrap();
    block_on(&mut ring, socket.connect(addr)).expect("a10 cannot connect to the address std bound");
}
