//! F9 demonstration: a descriptor delivered to an abandoned (dropped while in flight) operation is leaked.
use std::future::Future;
use std::pin::pin;
use std::task::{Context, Waker};
use std::time::Duration;

fn open_fds() -> usize {
    std::fs::read_dir("/proc/self/fd").unwrap().count()
}

#[test]
fn abandoned_socket_leaks_fd() {
    let mut ring = a10::Ring::new().unwrap();
    let sq = ring.sq();
    let before = open_fds();
    for _ in 0..5 {
        let mut fut = Box::pin(a10::net::socket(sq.clone(), a10::net::Domain::IPV4, a10::net::Type::STREAM, None));
        let mut ctx = Context::from_waker(Waker::noop());
        assert!(fut.as_mut().poll(&mut ctx).is_pending()); // queued, not yet submitted
        drop(fut); // abandoned while in flight: cancel queued behind it
        ring.poll(Some(Duration::from_millis(10))).unwrap(); // kernel creates the socket, posts its fd
        ring.poll(Some(Duration::from_millis(10))).unwrap();
    }
    let after = open_fds();
    assert_eq!(before, after, "descriptors leaked by abandoned socket() operations");
}
