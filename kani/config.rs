//! Harnesses for `src/io_uring/config.rs` (child module): ring construction is all-or-nothing and honours its
//! configuration (C18); teardown releases exactly what was acquired (C12).
#![allow(dead_code, unused, static_mut_refs)]

use super::*;
use crate::verif_env as env;
use std::mem::ManuallyDrop;

pub(crate) const RFD: i32 = 1000;

fn any_config<'r>() -> Config<'r> {
    Config {
        submission_entries: kani::any(),
        completion_entries: if kani::any() { Some(kani::any()) } else { None },
        disabled: kani::any(),
        single_issuer: kani::any(),
        defer_taskrun: kani::any(),
        clamp: kani::any(),
        kernel_thread: kani::any(),
        cpu_affinity: if kani::any() { Some(kani::any()) } else { None },
        idle_timeout: if kani::any() { Some(kani::any()) } else { None },
        direct_descriptors: if kani::any() { Some(kani::any()) } else { None },
        attach: None,
    }
}

fn expected_flags(c: &Config<'_>) -> u32 {
    let mut f = libc::IORING_SETUP_SUBMIT_ALL | libc::IORING_SETUP_NO_SQARRAY;
    f |= if c.kernel_thread { libc::IORING_SETUP_SQPOLL } else { libc::IORING_SETUP_COOP_TASKRUN };
    if c.disabled { f |= libc::IORING_SETUP_R_DISABLED; }
    if c.single_issuer { f |= libc::IORING_SETUP_SINGLE_ISSUER; }
    if c.defer_taskrun { f |= libc::IORING_SETUP_DEFER_TASKRUN; }
    if c.completion_entries.is_some() { f |= libc::IORING_SETUP_CQSIZE; }
    if c.clamp { f |= libc::IORING_SETUP_CLAMP; }
    if c.cpu_affinity.is_some() { f |= libc::IORING_SETUP_SQ_AFF; }
    f
}

// =========================================================================================
// C18/C04  c18.params — the parameter block handed to io_uring_setup carries exactly the configuration:
//   always SUBMIT_ALL | NO_SQARRAY (C04: the slot index is the tail itself), one flag per option, sizes/cpu/idle in
//   their fields, everything else zero; a setup error is returned as is and nothing is left behind.
// =========================================================================================
#[kani::proof]
#[kani::unwind(3)]
fn c18_params() {
    let c = any_config();
    let want_flags = expected_flags(&c);
    let (se, ce, cpu, idle) = (c.submission_entries, c.completion_entries, c.cpu_affinity, c.idle_timeout);
    let errno: i32 = kani::any();
    kani::assume(errno > 0 && errno < 4096);
    unsafe {
        env::E.setup_ret = -1;
        env::E.setup_errno = errno;
    }
    let r = crate::Config { sys: c }.build_sys();
    assert!(unsafe { env::E.setup_n } == 1 && unsafe { env::E.setup_entries } == se, "io_uring_setup(entries = submission queue size, &params)");
    let p = unsafe { env::E.setup_in };
    assert!(p[0] == se, "sq_entries");
    assert!(p[1] == ce.unwrap_or(0), "cq_entries only with CQSIZE");
    assert!(p[2] == want_flags, "flags == SUBMIT_ALL | NO_SQARRAY | one bit per configured option");
    assert!(p[3] == cpu.unwrap_or(0) && p[4] == idle.unwrap_or(0), "sq_thread_cpu / sq_thread_idle");
    assert!(p[5] == 0 && p[6] == 0 && p[7] == 0 && p[8] == 0 && p[9] == 0, "features, wq_fd, resv zero on input");
    assert!(p[10] == 0 && p[16] == 0 && p[19] == 0 && p[20] == 0 && p[25] == 0 && p[29] == 0, "offset blocks zero on input");
    assert!(matches!(&r, Err(e) if e.raw_os_error() == Some(errno)), "setup error returned as is");
    assert!(unsafe { env::E.mmap_n } == 0 && unsafe { env::E.close_n } == 0 && unsafe { env::E.reg_n } == 0, "nothing acquired, nothing to release");
    std::mem::forget(r);
    kani::cover!(want_flags & libc::IORING_SETUP_SQPOLL != 0, "kernel thread");
    kani::cover!(want_flags & libc::IORING_SETUP_DEFER_TASKRUN != 0 && ce.is_some(), "defer taskrun + cq size");
}

// =========================================================================================
// C18  c18.build — all-or-nothing: with io_uring_setup succeeding and every later step (feature bits, the three
//   mmaps, their madvise calls, the direct-descriptor registration) free to fail, build_sys either returns queues
//   built from exactly what the kernel granted, with exactly the three mappings live and the ring fd open, or
//   returns an error with every mapping unmapped (with the (addr, len) it was mapped with) and the ring fd closed
//   exactly once.
// =========================================================================================
#[repr(C, align(64))]
struct Mem {
    sqring: [u8; 256],
    sqes: [u8; 256],
    cqring: [u8; 256],
}

const REQUIRED: u32 = libc::IORING_FEAT_NODROP | libc::IORING_FEAT_SUBMIT_STABLE | libc::IORING_FEAT_RW_CUR_POS | libc::IORING_FEAT_SQPOLL_NONFIXED;

fn build_case(features_ok: bool) {
    let mut mem = Mem { sqring: [0; 256], sqes: [0; 256], cqring: [0; 256] };
    let mut c = any_config();
    let dd = c.direct_descriptors;
    // ---- the kernel's answer
    let sq_entries: u32 = kani::any();
    let cq_entries: u32 = kani::any();
    kani::assume(sq_entries == 1 || sq_entries == 2 || sq_entries == 4);
    kani::assume(cq_entries == 1 || cq_entries == 2 || cq_entries == 4 || cq_entries == 8);
    let features: u32 = kani::any();
    kani::assume((features & REQUIRED == REQUIRED) == features_ok);
    let kflags: u32 = kani::any();
    let (sq_head, sq_tail, sq_flags, sq_array): (u32, u32, u32, u32) = (kani::any(), kani::any(), kani::any(), kani::any());
    kani::assume(sq_head <= 60 && sq_tail <= 60 && sq_flags <= 60 && sq_array <= 64);
    // the ring words are u32s: the kernel hands out 4-byte aligned offsets (the teardown reads head and tail)
    kani::assume(sq_head % 4 == 0 && sq_tail % 4 == 0 && sq_flags % 4 == 0);
    env::real_shared_drop();
    let (cq_head, cq_tail, cq_cqes): (u32, u32, u32) = (kani::any(), kani::any(), kani::any());
    kani::assume(cq_head <= 60 && cq_tail <= 60 && cq_cqes <= 64);
    let mut out = [0u32; 30];
    out[0] = sq_entries;
    out[1] = cq_entries;
    out[2] = kflags;
    out[5] = features;
    out[10] = sq_head;
    out[11] = sq_tail;
    out[14] = sq_flags;
    out[16] = sq_array;
    out[20] = cq_head;
    out[21] = cq_tail;
    out[25] = cq_cqes;
    let fail_mmap: [bool; 3] = [kani::any(), kani::any(), kani::any()];
    let fail_madvise: [bool; 3] = [kani::any(), kani::any(), kani::any()];
    let fail_reg: bool = kani::any();
    unsafe {
        env::E.setup_ret = RFD;
        env::E.setup_out = out;
        env::E.mmap_ret[0] = if fail_mmap[0] { std::ptr::null_mut() } else { mem.sqring.as_mut_ptr().cast() };
        env::E.mmap_ret[1] = if fail_mmap[1] { std::ptr::null_mut() } else { mem.sqes.as_mut_ptr().cast() };
        env::E.mmap_ret[2] = if fail_mmap[2] { std::ptr::null_mut() } else { mem.cqring.as_mut_ptr().cast() };
        env::E.madvise_ret[0] = if fail_madvise[0] { -1 } else { 0 };
        env::E.madvise_ret[1] = if fail_madvise[1] { -1 } else { 0 };
        env::E.madvise_ret[2] = if fail_madvise[2] { -1 } else { 0 };
        env::E.reg_ret[0] = if fail_reg { -1 } else { 0 };
        env::E.reg_errno[0] = libc::ENOMEM;
        env::E.reg_copy = 32;
    }
    let r = crate::Config { sys: c }.build_sys();
    let sq_len = (sq_array + sq_entries * 4) as usize;
    let sqes_len = sq_entries as usize * 64;
    let cq_len = (cq_cqes + cq_entries * 16) as usize;
    match r {
        Ok((cq, sq)) => {
            assert!(features_ok, "a ring is only returned when every required feature is present");
            assert!(!fail_mmap[0] && !fail_mmap[1] && !fail_mmap[2] && !fail_madvise[0] && !fail_madvise[1] && !fail_madvise[2], "and every mapping step succeeded");
            assert!(dd.is_none() || !fail_reg, "and the direct-descriptor table was registered if requested");
            assert!(env::live_maps() == 3 && unsafe { env::E.munmap_n } == 0 && unsafe { env::E.close_n } == 0, "exactly the three mappings live, ring fd open");
            let m = unsafe { env::E.maps };
            assert!(m[0].0 == mem.sqring.as_ptr().addr() && m[0].1 == sq_len, "SQ ring mapped with the kernel-granted size");
            assert!(m[1].0 == mem.sqes.as_ptr().addr() && m[1].1 == sqes_len, "SQEs mapped: sq_entries * 64");
            assert!(m[2].0 == mem.cqring.as_ptr().addr() && m[2].1 == cq_len, "CQ ring mapped: cqes offset + cq_entries * 16");
            let a = unsafe { env::E.mmap_args };
            assert!(a[0].3 == RFD && a[1].3 == RFD && a[2].3 == RFD && a[0].4 == libc::IORING_OFF_SQ_RING as i64 && a[1].4 == libc::IORING_OFF_SQES as i64 && a[2].4 == libc::IORING_OFF_CQ_RING as i64, "each region mapped from the ring fd at its ABI offset");
            assert!(crate::io_uring::verif_uring::geometry(sq.shared()) == (sq_entries, kflags & libc::IORING_SETUP_SQPOLL != 0, kflags & libc::IORING_SETUP_SINGLE_ISSUER != 0, RFD), "submission side uses the granted size and modes");
            assert!(crate::io_uring::verif_uring::sq_ptrs(sq.shared()) == (mem.sqring.as_ptr().addr() + sq_head as usize, mem.sqring.as_ptr().addr() + sq_tail as usize, mem.sqring.as_ptr().addr() + sq_flags as usize, mem.sqes.as_ptr().addr()), "ring words at the kernel-given offsets");
            assert!(crate::io_uring::cq::verif_cq::geometry(&cq) == (cq_entries, mem.cqring.as_ptr().addr() + cq_head as usize, mem.cqring.as_ptr().addr() + cq_tail as usize, mem.cqring.as_ptr().addr() + cq_cqes as usize, cq_len as u32), "completion side likewise");
            match dd {
                Some(n) => {
                    assert!(unsafe { env::E.reg_n } == 1);
                    let call = unsafe { env::E.regs[0] };
                    assert!(call.fd == RFD && call.opcode == libc::IORING_REGISTER_FILES2 && call.nr_args as usize == size_of::<libc::io_uring_rsrc_register>());
                    assert!(call.words[0] == ((libc::IORING_RSRC_REGISTER_SPARSE as u64) << 32) | n as u64 && call.words[1] == 0 && call.words[2] == 0 && call.words[3] == 0, "sparse table of the requested size");
                }
                None => assert!(unsafe { env::E.reg_n } == 0),
            }
            std::mem::forget(cq);
            std::mem::forget(sq);
        }
        Err(e) => {
            assert!(env::live_maps() == 0, "error: every mapping made so far has been unmapped");
            assert!(unsafe { env::E.munmap_bad } == 0, "each with the address and length it was mapped with");
            assert!(unsafe { env::E.close_n } == 1 && unsafe { env::E.closed[0] } == RFD, "and the ring fd closed exactly once");
            assert!(!features_ok || fail_mmap[0] || fail_mmap[1] || fail_mmap[2] || fail_madvise[0] || fail_madvise[1] || fail_madvise[2] || (dd.is_some() && fail_reg), "an error only when the kernel refused something");
            std::mem::forget(e);
        }
    }
}

#[kani::proof]
#[kani::unwind(3)]
#[kani::stub(std::os::fd::OwnedFd::drop, crate::verif_env::owned_fd_drop)]
fn c18_build_features_ok() {
    build_case(true);
    kani::cover!(env::live_maps() == 3, "ring built");
    kani::cover!(env::live_maps() == 0 && unsafe { env::E.mmap_n } == 3, "failed at the third mapping or later");
    kani::cover!(unsafe { env::E.mmap_n } == 2 && unsafe { env::E.munmap_n } >= 1, "second mapping failed: first unmapped");
    kani::cover!(unsafe { env::E.reg_n } == 1 && env::live_maps() == 0, "registration failed: everything unwound");
}

#[kani::proof]
#[kani::unwind(3)]
#[kani::stub(std::os::fd::OwnedFd::drop, crate::verif_env::owned_fd_drop)]
fn c18_build_feature_missing() {
    build_case(false);
    kani::cover!(unsafe { env::E.close_n } == 1, "fd dropped on the early return");
}
