//! Harnesses for `src/io_uring/cq.rs` (child module of `io_uring::cq`).
#![allow(dead_code, unused, static_mut_refs)]

use super::*;
use crate::io_uring::verif_uring::{self as vu, FakeSq, ring_inv};
use crate::verif_env as env;
use std::mem::ManuallyDrop;

pub(crate) struct FakeCq<const N: usize> {
    pub head: AtomicU32,
    pub tail: AtomicU32,
    pub cqes: [Completion; N],
}

pub(crate) fn cqe(user_data: u64, res: i32, flags: u32) -> Completion {
    Completion(libc::io_uring_cqe { user_data, res, flags, big_cqe: libc::__IncompleteArrayField::default() })
}

impl<const N: usize> FakeCq<N> {
    pub(crate) fn new(head: u32, tail: u32) -> FakeCq<N> {
        FakeCq { head: AtomicU32::new(head), tail: AtomicU32::new(tail), cqes: std::array::from_fn(|_| cqe(0, 0, 0)) }
    }
    pub(crate) fn completions(&mut self, len: u32) -> ManuallyDrop<Completions> {
        ManuallyDrop::new(Completions {
            ring: ptr::NonNull::dangling(),
            ring_len: 0,
            entries_head: ptr::NonNull::from(&self.head),
            entries_tail: ptr::NonNull::from(&self.tail),
            entries: ptr::NonNull::new(self.cqes.as_mut_ptr()).unwrap(),
            entries_len: len,
        })
    }
}

// ---- recording mode for Completion::process (hooked at its first line under cfg(kani)) ----
pub(crate) const NPROC: usize = 8;
/// One static for all recorder state (see the note on `Env` in env.rs about small zero statics).
pub(crate) struct Rec {
    pub magic: u64,
    pub record: u32,
    pub n: usize,
    pub log: [(u64, i32, u32); NPROC],
    /// Value of the shared CQ head word at the time of each process call.
    pub head_seen: [u32; NPROC],
    pub watch_cq_head: *const AtomicU32,
    /// 1 = stop at the dispatch point of `process` (after the reserved-value filter) and only count
    pub stop_at_dispatch: u32,
    pub dispatched: u32,
}
pub(crate) static mut P: Rec = Rec { magic: 0xC0_A10A_10A1_BEEF, record: 0, n: 0, log: [(0, 0, 0); NPROC], head_seen: [0; NPROC], watch_cq_head: std::ptr::null(), stop_at_dispatch: 0, dispatched: 0 };

/// Returns true if `process` must return immediately (record-only mode: the callee is replaced by
/// its frame contract "touches nothing of the ring").
pub(crate) fn on_process(c: &Completion) -> bool {
    unsafe {
        if P.record == 0 {
            return false;
        }
        if P.n < NPROC {
            P.log[P.n] = (c.0.user_data, c.0.res, c.0.flags);
            if !P.watch_cq_head.is_null() {
                P.head_seen[P.n] = (*P.watch_cq_head).load(Ordering::SeqCst);
            }
        }
        P.n += 1;
        true
    }
}

pub(crate) fn geometry(c: &Completions) -> (u32, usize, usize, usize, u32) {
    (c.entries_len, c.entries_head.as_ptr().addr(), c.entries_tail.as_ptr().addr(), c.entries.as_ptr().addr(), c.ring_len)
}
pub(crate) unsafe fn call_process(c: &Completion) {
    unsafe { c.process() }
}

/// Hook placed (cfg(kani)) right after the reserved-value filter of `process`, before any pointer is
/// formed from `user_data`.  Returns true (= return from process) in stop-at-dispatch mode.
pub(crate) fn on_dispatch(c: &Completion) -> bool {
    unsafe {
        P.dispatched += 1;
        P.stop_at_dispatch != 0
    }
}

// =========================================================================================
// C05  c05.poll.nonempty.N — the queue already holds b in 1..=N completions
//   processed sequence == slots head..tail in publication order, each exactly once; nothing at or
//   beyond tail is read; head' == tail; the head word is still the old head while entries are read
//   (slots are given back only after reading); no kernel entry.
// =========================================================================================
fn poll_nonempty<const N: usize>() {
    let h: u32 = kani::any();
    let b: u32 = kani::any();
    let len = N as u32;
    kani::assume(b >= 1 && b <= len);
    let t = h.wrapping_add(b);
    let mut cq = FakeCq::<N>::new(h, t);
    let mut uds = [0u64; N];
    let mut i = 0;
    while i < N {
        // entry published i-th after head carries sequence number i; unpublished slots carry a poison tag
        let ud: u64 = kani::any();
        uds[i] = ud;
        let slot = (h.wrapping_add(i as u32) & (len - 1)) as usize;
        cq.cqes[slot] = if (i as u32) < b { cqe(ud, i as i32, kani::any()) } else { cqe(ud, -7777, 0) };
        i += 1;
    }
    let mut sq = FakeSq::<1>::new(0, 0, 0);
    let shared = sq.shared(1, false, false);
    let mut comps = cq.completions(len);
    unsafe {
        P.record = 1;
        P.watch_cq_head = &cq.head;
    }
    let res = comps.poll(&shared, None);
    assert!(res.is_ok());
    assert!(unsafe { env::E.enter_n } == 0, "no kernel entry while completions are pending");
    assert!(unsafe { P.n } == b as usize, "every published completion processed exactly once");
    let mut i = 0;
    while i < N {
        if (i as u32) < b {
            let (ud, r, _f) = unsafe { P.log[i] };
            assert!(r == i as i32 && ud == uds[i], "processed in publication order");
            assert!(unsafe { P.head_seen[i] } == h, "slots are not given back before they have been read");
        }
        i += 1;
    }
    assert!(cq.head.load(Ordering::SeqCst) == t, "head' == tail");
    assert!(cq.tail.load(Ordering::SeqCst) == t, "tail is never written by the consumer");
    kani::cover!(t < h, "batch straddles the 2^32 wrap");
    kani::cover!(b == len, "full ring");
}

#[kani::proof]
#[kani::unwind(4)]
fn c05_poll_nonempty_1() {
    poll_nonempty::<1>();
}
#[kani::proof]
#[kani::unwind(4)]
fn c05_poll_nonempty_2() {
    poll_nonempty::<2>();
}
#[kani::proof]
#[kani::unwind(6)]
fn c05_poll_nonempty_4() {
    poll_nonempty::<4>();
}
#[kani::proof]
#[kani::unwind(10)]
fn c05_poll_nonempty_8() {
    poll_nonempty::<8>();
}

// =========================================================================================
// C05/C11  c05.poll.empty.N + c11.poll.handshake — empty queue: announce polling, enter the kernel
//   (min_complete 1, GETEVENTS; zero timeout iff a wake-up was already pending), clear polling on
//   every path, re-read the tail, process exactly what the kernel published meanwhile.
// =========================================================================================
fn poll_empty<const N: usize>() {
    let h: u32 = kani::any();
    let len = N as u32;
    let m: u32 = kani::any();
    kani::assume(m <= len);
    let mut cq = FakeCq::<N>::new(h, h);
    let mut i = 0;
    while i < N {
        let slot = (h.wrapping_add(i as u32) & (len - 1)) as usize;
        cq.cqes[slot] = cqe(kani::any(), i as i32, kani::any());
        i += 1;
    }
    let mut sq = FakeSq::<1>::new(0, 0, 0);
    let shared = sq.shared(1, false, false);
    let awoken: bool = kani::any();
    if awoken {
        // a wake() that happened before this poll started
        let _ = vu::polling_raw(&shared).wake();
    }
    let mut comps = cq.completions(len);
    let ret: i32 = kani::any();
    kani::assume(ret >= -1);
    let errno: i32 = kani::any();
    kani::assume(errno == libc::ETIME || errno == libc::EINTR || errno == libc::EBUSY || errno == libc::EBADF);
    unsafe {
        P.record = 1;
        P.watch_cq_head = &cq.head;
        env::E.k_cq_tail = &cq.tail;
        env::E.enter_ret[0] = ret;
        env::E.enter_errno[0] = errno;
        env::E.enter_publish[0] = m;
    }
    env::skip_wake_blocked_futures();
    let user_timeout = if kani::any() { Some(Duration::new(kani::any(), 0)) } else { None };
    let res = comps.poll(&shared, user_timeout);
    // --- handshake (C11)
    assert!(unsafe { env::E.enter_n } == 1, "empty queue: exactly one kernel entry");
    let call = unsafe { env::E.enters[0] };
    assert!(call.min_complete == 1 && call.flags & libc::IORING_ENTER_GETEVENTS != 0);
    let n = env::evn();
    assert!(n == 3, "set_polling(true); enter; set_polling(false)");
    assert!(env::evat(0).0 == env::EV_SET_POLLING_TRUE, "polling announced before entering the kernel");
    assert!(env::evat(1).0 == env::EV_ENTER);
    assert!(env::evat(2).0 == env::EV_SET_POLLING_FALSE, "polling cleared after the kernel entry on every path");
    if awoken {
        assert!(call.has_ts && call.ts_sec == 0 && call.ts_nsec == 0, "a pending wake-up turns the wait into a zero-timeout poll");
    } else {
        match user_timeout {
            Some(d) => assert!(call.has_ts && call.ts_sec == i64::try_from(d.as_secs()).unwrap_or(i64::MAX) && call.ts_nsec == 0),
            None => assert!(!call.has_ts, "no wake-up pending: the caller's timeout is used"),
        }
    }
    // polling state is back to idle (neither polling nor awoken)
    assert!(!vu::polling_raw(&shared).set_polling(false), "awoken flag consumed");
    // --- completions (C05)
    let hard_error = ret == -1 && errno != libc::ETIME && errno != libc::EINTR;
    if hard_error {
        assert!(res.is_err());
        assert!(unsafe { P.n } == 0 && cq.head.load(Ordering::SeqCst) == h, "nothing consumed on error");
    } else {
        assert!(res.is_ok());
        let published = if ret == -1 { 0 } else { m };
        assert!(unsafe { P.n } == published as usize, "exactly the completions published during the wait are processed");
        let mut i = 0;
        while i < N {
            if (i as u32) < published {
                assert!(unsafe { P.log[i].1 } == i as i32, "in publication order");
                assert!(unsafe { P.head_seen[i] } == h);
            }
            i += 1;
        }
        assert!(cq.head.load(Ordering::SeqCst) == h.wrapping_add(published));
    }
    kani::cover!(hard_error, "kernel entry failed");
    kani::cover!(ret == -1 && errno == libc::ETIME, "timed out");
    kani::cover!(ret >= 0 && m == len && h.wrapping_add(m) < h, "full batch across the wrap");
    kani::cover!(awoken, "woken before polling");
}

#[kani::proof]
#[kani::unwind(4)]
fn c05_poll_empty_1() {
    poll_empty::<1>();
}
#[kani::proof]
#[kani::unwind(4)]
fn c05_poll_empty_2() {
    poll_empty::<2>();
}
#[kani::proof]
#[kani::unwind(6)]
fn c05_poll_empty_4() {
    poll_empty::<4>();
}

// =========================================================================================
// C05/C02  c05.process.reserved — bookkeeping / padding completions never touch an operation:
//   F_SKIP or user_data in 0..=3 => no pointer is formed from user_data (any dereference of such an
//   address is a CBMC pointer failure), nothing is woken or freed.
// =========================================================================================
#[kani::proof]
#[kani::unwind(8)]
fn c05_process_reserved() {
    let ud: u64 = kani::any();
    let res: i32 = kani::any();
    let flags: u32 = kani::any();
    kani::assume(flags & libc::IORING_CQE_F_SKIP != 0 || ud <= 3);
    let c = cqe(ud, res, flags);
    unsafe { P.stop_at_dispatch = 1 };
    unsafe { c.process() };
    assert!(unsafe { P.dispatched } == 0, "reserved / padding completions never reach the pointer dispatch");
    assert!(env::total_wakes() == 0);
    kani::cover!(flags & libc::IORING_CQE_F_SKIP != 0 && ud > 3, "padding entry with a pointer-looking user_data");
    kani::cover!(ud == CANCEL_USER_DATA && res == -libc::ENOENT, "cancel ack ENOENT");
    kani::cover!(ud == CANCEL_USER_DATA && res == 0, "cancel ack other");
    kani::cover!(ud == CLOSE_USER_DATA, "close failure report");
    kani::cover!(ud == WAKE_USER_DATA, "wake message");
    kani::cover!(ud == NO_USER_DATA, "no user data");
}

/// Converse: everything else IS dispatched (exactly once) — nothing belonging to an operation is dropped.
#[kani::proof]
#[kani::unwind(3)]
fn c05_process_dispatches_rest() {
    let ud: u64 = kani::any();
    let res: i32 = kani::any();
    let flags: u32 = kani::any();
    kani::assume(flags & libc::IORING_CQE_F_SKIP == 0 && ud > 3);
    let c = cqe(ud, res, flags);
    unsafe { P.stop_at_dispatch = 1 };
    unsafe { c.process() };
    assert!(unsafe { P.dispatched } == 1, "operation completions reach the dispatch exactly once");
    kani::cover!(true, "dispatched");
}

// =========================================================================================
// C12  c12.completions.new_drop — Completions::new then Drop: the completion ring is unmapped with the length it
//   was mapped with; a failing madvise unmaps immediately.
// =========================================================================================
#[kani::proof]
#[kani::unwind(3)]
fn c12_completions_new_drop() {
    let mut mem = crate::io_uring::verif_uring::MapMem { a: [0; 256], b: [0; 256] };
    let mut params: libc::io_uring_params = unsafe { std::mem::zeroed() };
    params.cq_entries = kani::any();
    kani::assume(params.cq_entries == 1 || params.cq_entries == 2 || params.cq_entries == 4 || params.cq_entries == 8);
    params.cq_off.cqes = kani::any();
    params.cq_off.head = kani::any();
    params.cq_off.tail = kani::any();
    kani::assume(params.cq_off.cqes <= 64 && params.cq_off.head <= 60 && params.cq_off.tail <= 60);
    let fail: bool = kani::any();
    let fail_adv: bool = kani::any();
    unsafe {
        env::E.mmap_ret[0] = if fail { std::ptr::null_mut() } else { mem.a.as_mut_ptr().cast() };
        env::E.madvise_ret[0] = if fail_adv { -1 } else { 0 };
    }
    let r = Completions::new(1000, &params);
    let ok = r.is_ok();
    if ok {
        assert!(env::live_maps() == 1 && unsafe { env::E.maps[0].1 } == (params.cq_off.cqes + params.cq_entries * 16) as usize);
        let a = unsafe { env::E.mmap_args[0] };
        assert!(a.3 == 1000 && a.4 == libc::IORING_OFF_CQ_RING as i64);
    }
    drop(r);
    assert!(env::live_maps() == 0 && unsafe { env::E.munmap_bad } == 0, "unmapped with its own address and length");
    assert!(unsafe { env::E.close_n } == 0, "the completion side never closes the ring fd");
    kani::cover!(ok, "built then dropped");
    kani::cover!(!ok && unsafe { env::E.munmap_n } == 1, "madvise failed: unmapped at once");
}

// =========================================================================================
// C12  c12.cq_drop — Ring drop: flush queued submissions (clean-up requests), synchronously cancel everything still
//   running, fetch and process the completions that produced — in that order, tolerating every error.
// =========================================================================================
#[kani::proof]
#[kani::unwind(3)]
fn c12_cq_drop() {
    let h: u32 = kani::any();
    let mut cq = FakeCq::<2>::new(h, h);
    cq.cqes[(h & 1) as usize] = cqe(CANCEL_USER_DATA, -libc::ENOENT, 0);
    let sh: u32 = kani::any();
    let st: u32 = kani::any();
    kani::assume(ring_inv(sh, st, 2));
    let mut sq = FakeSq::<2>::new(sh, st, 0);
    let kernel_thread: bool = kani::any();
    let shared = sq.shared(2, kernel_thread, false);
    let mut comps = cq.completions(2);
    // every step may fail
    let rets: [i32; 3] = [kani::any(), kani::any(), kani::any()];
    kani::assume(rets[0] >= -1 && rets[1] >= -1 && rets[2] >= -1);
    let errno: i32 = kani::any();
    kani::assume(errno == libc::EINTR || errno == libc::EBADF || errno == libc::ETIME || errno == libc::EBUSY);
    let reg_fail: bool = kani::any();
    unsafe {
        P.record = 1;
        env::E.k_cq_tail = &cq.tail;
        env::E.enter_ret = [rets[0], rets[1], rets[2], 0];
        env::E.enter_errno = [errno; 4];
        env::E.enter_publish[1] = 1; // the cancelled operation's completion shows up at the fetch
        env::E.reg_ret[0] = if reg_fail { -1 } else { 0 };
        env::E.reg_errno[0] = libc::EINVAL;
        env::E.reg_copy = 64;
    }
    env::skip_wake_blocked_futures();
    comps.drop(&shared);
    // order of kernel interactions
    assert!(env::evat(0).0 == env::EV_ENTER, "1: flush");
    let flush = unsafe { env::E.enters[0] };
    assert!(flush.min_complete == u32::MAX && flush.has_ts && flush.ts_sec == 1, "flush: submit everything queued, bounded wait");
    assert!((flush.flags & libc::IORING_ENTER_SQ_WAIT != 0) == kernel_thread && flush.flags & libc::IORING_ENTER_GETEVENTS == 0);
    assert!(if kernel_thread { flush.to_submit == 0 } else { flush.to_submit == st.wrapping_sub(sh) });
    assert!(env::evat(1).0 == env::EV_REGISTER && env::evat(1).1 == libc::IORING_REGISTER_SYNC_CANCEL as u64, "2: cancel everything that is still running");
    let call = unsafe { env::E.regs[0] };
    // struct io_uring_sync_cancel_reg { u64 addr; s32 fd; u32 flags; timespec{ s64 sec; s64 nsec } ... }
    assert!(call.nr_args == 1 && call.words[0] == 0 && (call.words[1] >> 32) as u32 == libc::IORING_ASYNC_CANCEL_ANY | libc::IORING_ASYNC_CANCEL_ALL && call.words[2] == 1 && call.words[3] == 0, "cancel ANY|ALL with a 1 s timeout");
    assert!(env::evat(2).0 == env::EV_ENTER, "3: fetch what the cancellation produced");
    let fetch = unsafe { env::E.enters[1] };
    assert!(fetch.min_complete == 1 && fetch.flags & libc::IORING_ENTER_GETEVENTS != 0 && fetch.has_ts && fetch.ts_sec == 0 && fetch.ts_nsec == 0);
    // 4: process them
    if rets[1] >= 0 {
        assert!(unsafe { P.n } == 1 && cq.head.load(Ordering::SeqCst) == h.wrapping_add(1), "the remaining completions are processed");
    }
    kani::cover!(rets[0] == -1 && reg_fail && rets[1] >= 0, "flush and cancel failed, still drained");
    kani::cover!(rets[1] == -1 && errno == libc::EBADF, "fetch failed");
    kani::cover!(kernel_thread, "kernel thread ring");
}
