//! Environment models = ASSUMED contracts (DESIGN.md 2.3).  Injected as `crate::verif_env`
//! into the scratch copy of a10 under `#[cfg(kani)]`.  Nothing in here is a10 code.
//!
//! * counting wakers (ghost counters for wake / clone / drop)
//! * lock hook: environment interference at the moment a given Mutex is taken (rely/guarantee)
//! * kernel model behind the three raw io_uring syscall wrappers
//! * libc ledger (mmap/munmap/madvise/close)
#![allow(dead_code, static_mut_refs, unused)]

use std::sync::atomic::{AtomicU32, Ordering};
use std::task::{RawWaker, RawWakerVTable, Waker};

// ---------------------------------------------------------------- wakers

pub(crate) const NWAKERS: usize = 6;
pub(crate) static mut WAKES: [u32; NWAKERS] = [0; NWAKERS];
pub(crate) static mut WAKER_CLONES: u32 = 0;
pub(crate) static mut WAKER_DROPS: u32 = 0;

unsafe fn w_clone(p: *const ()) -> RawWaker {
    unsafe { WAKER_CLONES += 1 };
    RawWaker::new(p, &VTABLE)
}
unsafe fn w_wake(p: *const ()) {
    let id = p as usize;
    unsafe {
        WAKES[id % NWAKERS] += 1;
        WAKER_DROPS += 1;
    }
}
unsafe fn w_wake_by_ref(p: *const ()) {
    let id = p as usize;
    unsafe { WAKES[id % NWAKERS] += 1 };
}
unsafe fn w_drop(_p: *const ()) {
    unsafe { WAKER_DROPS += 1 };
}
static VTABLE: RawWakerVTable = RawWakerVTable::new(w_clone, w_wake, w_wake_by_ref, w_drop);

/// A waker whose identity is `id` (< NWAKERS); waking bumps `WAKES[id]`.
pub(crate) fn waker(id: usize) -> Waker {
    unsafe { Waker::from_raw(RawWaker::new(id as *const (), &VTABLE)) }
}
pub(crate) fn waker_id(w: &Waker) -> usize {
    w.data() as usize
}
pub(crate) fn wakes(id: usize) -> u32 {
    unsafe { WAKES[id] }
}
pub(crate) fn total_wakes() -> u32 {
    let mut n = 0;
    let mut i = 0;
    while i < NWAKERS {
        n += unsafe { WAKES[i] };
        i += 1;
    }
    n
}

// ---------------------------------------------------------------- lock hook (rely/guarantee)

/// Address of the Mutex at which the environment acts, and what it does.
pub(crate) static mut LOCK_ADDR: usize = 0;
pub(crate) static mut LOCK_KIND: u8 = 0;
pub(crate) static mut LOCK_FIRED: u32 = 0;
pub(crate) static mut LOCK_COUNT: u32 = 0;
/// Ring words the interference may change.
pub(crate) static mut ENV_HEAD: *const AtomicU32 = std::ptr::null();
pub(crate) static mut ENV_TAIL: *const AtomicU32 = std::ptr::null();
pub(crate) static mut ENV_LEN: u32 = 0;
pub(crate) static mut ENV_NEW_HEAD: u32 = 0;
pub(crate) static mut ENV_NEW_TAIL: u32 = 0;

pub(crate) const LK_NONE: u8 = 0;
/// Other submitters appended entries and/or the kernel consumed some: head/tail are
/// replaced by the (harness-chosen, invariant-respecting) values ENV_NEW_HEAD/ENV_NEW_TAIL.
pub(crate) const LK_RING_WORDS: u8 = 1;

/// Called (through the injected cfg(kani) line) at the top of `crate::lock`.
pub(crate) fn on_lock(addr: usize) {
    unsafe {
        LOCK_COUNT += 1;
        if LOCK_KIND != LK_NONE && addr == LOCK_ADDR {
            if LOCK_KIND == LK_RING_WORDS {
                (*ENV_HEAD).store(ENV_NEW_HEAD, Ordering::SeqCst);
                (*ENV_TAIL).store(ENV_NEW_TAIL, Ordering::SeqCst);
            }
            LOCK_FIRED += 1;
            LOCK_KIND = LK_NONE;
        }
    }
}

// ---------------------------------------------------------------- kernel model

pub(crate) const EV_FENCE: u8 = 1;
pub(crate) const EV_ENTER: u8 = 2;
pub(crate) const EV_REGISTER: u8 = 3;
pub(crate) const EV_SETUP: u8 = 4;
pub(crate) const EV_SET_POLLING_TRUE: u8 = 5;
pub(crate) const EV_SET_POLLING_FALSE: u8 = 6;
pub(crate) const EV_MMAP: u8 = 7;
pub(crate) const EV_MUNMAP: u8 = 8;
pub(crate) const EV_CLOSE: u8 = 9;
pub(crate) const EV_MADVISE: u8 = 10;

pub(crate) const NEV: usize = 16;
/// Ordered log of environment-visible events (syscalls), with two payload words each.
pub(crate) static mut EVLOG: [(u8, u64, u64); NEV] = [(0, 0, 0); NEV];
pub(crate) static mut EVN: usize = 0;

pub(crate) fn ev(kind: u8, a: u64, b: u64) {
    unsafe {
        if EVN < NEV {
            EVLOG[EVN] = (kind, a, b);
        }
        EVN += 1;
    }
}
pub(crate) fn evn() -> usize {
    unsafe { EVN }
}
pub(crate) fn evat(i: usize) -> (u8, u64, u64) {
    unsafe { EVLOG[i] }
}

#[derive(Copy, Clone)]
pub(crate) struct EnterCall {
    pub fd: i32,
    pub to_submit: u32,
    pub min_complete: u32,
    pub flags: u32,
    pub has_ts: bool,
    pub ts_sec: i64,
    pub ts_nsec: i64,
    pub size: usize,
}
pub(crate) const NENTER: usize = 4;
pub(crate) static mut ENTERS: [EnterCall; NENTER] = [EnterCall { fd: 0, to_submit: 0, min_complete: 0, flags: 0, has_ts: false, ts_sec: 0, ts_nsec: 0, size: 0 }; NENTER];
pub(crate) static mut ENTER_N: usize = 0;
/// What each successive enter call returns (-1 => errno from ENTER_ERRNO).
pub(crate) static mut ENTER_RET: [i32; NENTER] = [0; NENTER];
pub(crate) static mut ENTER_ERRNO: [i32; NENTER] = [0; NENTER];
/// How many SQEs the kernel consumes in each enter (advance of the SQ head), and how many
/// CQEs it publishes (advance of the CQ tail; the slots were written by the harness).
pub(crate) static mut ENTER_CONSUME: [u32; NENTER] = [0; NENTER];
pub(crate) static mut ENTER_PUBLISH: [u32; NENTER] = [0; NENTER];
pub(crate) static mut K_SQ_HEAD: *const AtomicU32 = std::ptr::null();
pub(crate) static mut K_SQ_TAIL: *const AtomicU32 = std::ptr::null();
pub(crate) static mut K_CQ_TAIL: *const AtomicU32 = std::ptr::null();
/// Value of the SQ tail / CQ head the kernel saw at each enter.
pub(crate) static mut ENTER_SAW_SQ_TAIL: [u32; NENTER] = [0; NENTER];

pub(crate) static mut ERRNO: i32 = 0;

pub(crate) fn set_errno(e: i32) {
    unsafe { ERRNO = e };
    set_real_errno(e);
}
/// Only meaningful in native playback; stubbed by `noop_set_real_errno` under verification.
pub(crate) fn set_real_errno(e: i32) {
    unsafe { *libc::__errno_location() = e };
}
pub(crate) fn noop_set_real_errno(_e: i32) {}
/// Stub for `std::io::Error::last_os_error` under verification.
pub(crate) fn model_last_os_error() -> std::io::Error {
    std::io::Error::from_raw_os_error(unsafe { ERRNO })
}

pub(crate) unsafe fn sys_enter2(fd: i32, to_submit: u32, min_complete: u32, flags: u32, arg: *const libc::c_void, size: usize) -> i32 {
    unsafe {
        let i = ENTER_N;
        ENTER_N += 1;
        let mut call = EnterCall { fd, to_submit, min_complete, flags, has_ts: false, ts_sec: 0, ts_nsec: 0, size };
        if !arg.is_null() {
            let a = &*(arg as *const [u64; 3]); // io_uring_getevents_arg: sigmask, (sigmask_sz,min_wait_usec), ts
            let ts = a[2];
            if ts != 0 {
                call.has_ts = true;
                let t = &*(ts as usize as *const [i64; 2]);
                call.ts_sec = t[0];
                call.ts_nsec = t[1];
            }
        }
        ev(EV_ENTER, to_submit as u64, ((flags as u64) << 32) | min_complete as u64);
        if i < NENTER {
            ENTERS[i] = call;
            if !K_SQ_TAIL.is_null() {
                ENTER_SAW_SQ_TAIL[i] = (*K_SQ_TAIL).load(Ordering::SeqCst);
            }
            if ENTER_RET[i] == -1 {
                set_errno(ENTER_ERRNO[i]);
                return -1;
            }
            if !K_SQ_HEAD.is_null() && ENTER_CONSUME[i] != 0 {
                let h = (*K_SQ_HEAD).load(Ordering::SeqCst);
                (*K_SQ_HEAD).store(h.wrapping_add(ENTER_CONSUME[i]), Ordering::SeqCst);
            }
            if !K_CQ_TAIL.is_null() && ENTER_PUBLISH[i] != 0 {
                let t = (*K_CQ_TAIL).load(Ordering::SeqCst);
                (*K_CQ_TAIL).store(t.wrapping_add(ENTER_PUBLISH[i]), Ordering::SeqCst);
            }
            return ENTER_RET[i];
        }
        0
    }
}

#[derive(Copy, Clone)]
pub(crate) struct RegisterCall {
    pub fd: i32,
    pub opcode: u32,
    pub arg: usize,
    pub nr_args: u32,
    /// first 64 bytes behind `arg` when the model knows the layout (SYNC_CANCEL / FILES_UPDATE / SEND_MSG_RING)
    pub words: [u64; 8],
}
pub(crate) const NREG: usize = 4;
pub(crate) static mut REGS: [RegisterCall; NREG] = [RegisterCall { fd: 0, opcode: 0, arg: 0, nr_args: 0, words: [0; 8] }; NREG];
pub(crate) static mut REG_N: usize = 0;
pub(crate) static mut REG_RET: [i32; NREG] = [0; NREG];
pub(crate) static mut REG_ERRNO: [i32; NREG] = [0; NREG];
/// How many bytes behind `arg` to copy into `words` (0 = none), chosen by the harness.
pub(crate) static mut REG_COPY: usize = 0;

pub(crate) unsafe fn sys_register(fd: i32, opcode: u32, arg: *const libc::c_void, nr_args: u32) -> i32 {
    unsafe {
        let i = REG_N;
        REG_N += 1;
        ev(EV_REGISTER, opcode as u64, nr_args as u64);
        if i < NREG {
            let mut words = [0u64; 8];
            if !arg.is_null() && REG_COPY != 0 {
                let n = REG_COPY / 8;
                let src = arg as *const u64;
                let mut k = 0;
                while k < 8 {
                    if k < n {
                        words[k] = src.add(k).read_unaligned();
                    }
                    k += 1;
                }
            }
            REGS[i] = RegisterCall { fd, opcode, arg: arg as usize, nr_args, words };
            if REG_RET[i] == -1 {
                set_errno(REG_ERRNO[i]);
                return -1;
            }
            return REG_RET[i];
        }
        0
    }
}

/// io_uring_setup: records the parameter block it was given, then lets the harness-provided
/// "kernel answer" overwrite the output fields.
pub(crate) static mut SETUP_N: usize = 0;
pub(crate) static mut SETUP_ENTRIES: u32 = 0;
pub(crate) static mut SETUP_IN: [u32; 30] = [0; 30]; // io_uring_params as 30 u32 words (120 bytes)
pub(crate) static mut SETUP_OUT: [u32; 30] = [0; 30];
pub(crate) static mut SETUP_RET: i32 = 0;
pub(crate) static mut SETUP_ERRNO: i32 = 0;

pub(crate) unsafe fn sys_setup(entries: u32, p: *mut libc::c_void) -> i32 {
    unsafe {
        SETUP_N += 1;
        SETUP_ENTRIES = entries;
        ev(EV_SETUP, entries as u64, 0);
        let w = p as *mut u32;
        let mut k = 0;
        while k < 30 {
            SETUP_IN[k] = w.add(k).read();
            k += 1;
        }
        if SETUP_RET == -1 {
            set_errno(SETUP_ERRNO);
            return -1;
        }
        let mut k = 0;
        while k < 30 {
            w.add(k).write(SETUP_OUT[k]);
            k += 1;
        }
        SETUP_RET
    }
}

// ---------------------------------------------------------------- libc ledger

pub(crate) const NMAP: usize = 4;
/// (addr, len, live)
pub(crate) static mut MAPS: [(usize, usize, bool); NMAP] = [(0, 0, false); NMAP];
pub(crate) static mut MMAP_N: usize = 0;
pub(crate) static mut MMAP_ARGS: [(usize, i32, i32, i32, i64); NMAP] = [(0, 0, 0, 0, 0); NMAP];
/// Per call: address the harness wants mmap to return (0 => MAP_FAILED with MMAP_ERRNO).
pub(crate) static mut MMAP_RET: [usize; NMAP] = [0; NMAP];
pub(crate) static mut MMAP_ERRNO: i32 = 12;
pub(crate) static mut MUNMAP_BAD: u32 = 0; // munmap of something not live / wrong length
pub(crate) static mut MUNMAP_N: u32 = 0;
pub(crate) static mut MADVISE_N: usize = 0;
pub(crate) static mut MADVISE_RET: [i32; NMAP] = [0; NMAP];
pub(crate) static mut MADVISE_ARGS: [(usize, usize, i32); NMAP] = [(0, 0, 0); NMAP];
pub(crate) const NFD: usize = 4;
pub(crate) static mut CLOSED: [i32; NFD] = [0; NFD];
pub(crate) static mut CLOSE_N: usize = 0;

pub(crate) unsafe fn mmap(addr: *mut libc::c_void, len: usize, prot: i32, flags: i32, fd: i32, off: i64) -> *mut libc::c_void {
    unsafe {
        let i = MMAP_N;
        MMAP_N += 1;
        ev(EV_MMAP, len as u64, off as u64);
        if i >= NMAP {
            set_errno(MMAP_ERRNO);
            return libc::MAP_FAILED;
        }
        MMAP_ARGS[i] = (len, prot, flags, fd, off);
        if MMAP_RET[i] == 0 {
            set_errno(MMAP_ERRNO);
            return libc::MAP_FAILED;
        }
        MAPS[i] = (MMAP_RET[i], len, true);
        MMAP_RET[i] as *mut libc::c_void
    }
}
pub(crate) unsafe fn munmap(addr: *mut libc::c_void, len: usize) -> i32 {
    unsafe {
        MUNMAP_N += 1;
        ev(EV_MUNMAP, addr as u64, len as u64);
        let mut k = 0;
        let mut found = false;
        while k < NMAP {
            if MAPS[k].2 && MAPS[k].0 == addr as usize && MAPS[k].1 == len {
                MAPS[k].2 = false;
                found = true;
                break;
            }
            k += 1;
        }
        if !found {
            MUNMAP_BAD += 1;
            set_errno(22);
            return -1;
        }
        0
    }
}
pub(crate) unsafe fn madvise(addr: *mut libc::c_void, len: usize, advice: i32) -> i32 {
    unsafe {
        let i = MADVISE_N;
        MADVISE_N += 1;
        ev(EV_MADVISE, addr as u64, len as u64);
        if i < NMAP {
            MADVISE_ARGS[i] = (addr as usize, len, advice);
            if MADVISE_RET[i] != 0 {
                set_errno(12);
                return -1;
            }
        }
        0
    }
}
pub(crate) unsafe fn close(fd: i32) -> i32 {
    unsafe {
        ev(EV_CLOSE, fd as u64, 0);
        if CLOSE_N < NFD {
            CLOSED[CLOSE_N] = fd;
        }
        CLOSE_N += 1;
        0
    }
}
pub(crate) fn live_maps() -> usize {
    let mut n = 0;
    let mut k = 0;
    while k < NMAP {
        if unsafe { MAPS[k].2 } {
            n += 1;
        }
        k += 1;
    }
    n
}
