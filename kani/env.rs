//! Environment models = ASSUMED contracts (DESIGN.md 2.3).  Injected as `crate::verif_env`
//! into the scratch copy of a10 under `#[cfg(kani)]`.  Nothing in here is a10 code.
//!
//! * counting wakers (ghost counters for wake / clone / drop)
//! * lock hook: environment interference at the moment a given Mutex is taken (rely/guarantee)
//! * kernel model behind the three raw io_uring syscall wrappers
//! * libc ledger (mmap/munmap/madvise/close)
#![allow(dead_code, static_mut_refs, unused)]

use std::sync::atomic::{AtomicU32, Ordering};
use std::task::{RawWaker, RawWakerVTable, Waker};

/// ALL mutable environment state lives in this ONE static.  (Kani 0.68 aliases small zero-initialised
/// `static mut`s with constants of the same bytes — e.g. a 1-byte zero static with the `false` const-generic
/// argument of core's `atomic_load::<T, false>` — so separate scalar statics are unsafe to write.)
pub(crate) struct Env {
    pub magic: u64,
    /// != 0: the composite operations (write_all, send_all, read_n, recv_n and their vectored forms) return Pending
    /// at their SECOND entry (the self-recursive re-poll after `state.reset(..)`), so that one step contract covers
    /// "result of the inner operation -> new (resources, args) handed to reset"; the re-poll itself is the first poll
    /// of a NotStarted operation (op.poll.not_started + the operation's encoder)
    pub repoll_cut_on: u32,
    pub repoll_entries: u32,
    /// != 0: `io_uring::op::poll` (singleshot) is replaced by its contract `verif_op::poll_contract`, which encodes
    /// exactly the postconditions proved by op.poll.not_started / op.poll.done.ok on the real function
    pub poll_contract: u32,
    /// != 0: `io_uring::op::fallback` (EINVAL -> ErrorKind::Unsupported, everything else unchanged; proved by
    /// op.fallback) is replaced by the identity: building io::Error::new(kind, &str) is what makes CBMC blow up
    pub fallback_identity: u32,
    pub fallback_calls: u32,
    /// LK_CALL: environment step to run (a plain fn registered by the harness), after skipping `lock_skip` matching acquisitions
    pub lock_fn: Option<fn()>,
    pub lock_skip: u32,
    /// LK_U16_WORD: the 16-bit word the environment overwrites at the lock, and its new value
    pub env_u16: *const u16,
    pub env_new_u16: u16,
    /// first element of the fd array a REGISTER_FILES_UPDATE points to
    pub reg_fds0: i32,
    /// != 0: `Shared::wake_blocked_futures` is replaced by its frame contract (counts the call, touches nothing);
    /// the function itself is proved by the c03.blocked.* obligations
    pub wbf_skip: u32,
    /// == 0 (default): `impl Drop for Shared` is cut (returns at once) - harnesses that are not about teardown keep an
    /// extra handle alive, so the last-handle teardown is unreachable in them and stays out of their formulas;
    /// the teardown itself is the subject of c12.shared.* / c18.build.* which switch it on
    pub shared_drop_real: u32,
    pub wbf_calls: u32,
    /// io_uring_params as 30 u32 words (120 bytes)
    pub setup_in: [u32; 30],
    /// munmap of something not live / wrong length
    pub munmap_bad: u32,
    pub wakes: [u32; NWAKERS],
    pub waker_clones: u32,
    pub waker_drops: u32,
    pub lock_addr: usize,
    pub lock_kind: u32,
    pub lock_fired: u32,
    pub lock_count: u32,
    pub env_head: *const AtomicU32,
    pub env_tail: *const AtomicU32,
    pub env_len: u32,
    pub env_new_head: u32,
    pub env_new_tail: u32,
    pub evlog: [(u8, u64, u64); NEV],
    pub evn: usize,
    pub enters: [EnterCall; NENTER],
    pub enter_n: usize,
    pub enter_ret: [i32; NENTER],
    pub enter_errno: [i32; NENTER],
    pub enter_consume: [u32; NENTER],
    pub enter_publish: [u32; NENTER],
    pub k_sq_head: *const AtomicU32,
    pub k_sq_tail: *const AtomicU32,
    pub k_cq_tail: *const AtomicU32,
    pub enter_saw_sq_tail: [u32; NENTER],
    pub errno: i32,
    pub regs: [RegisterCall; NREG],
    pub reg_n: usize,
    pub reg_ret: [i32; NREG],
    pub reg_errno: [i32; NREG],
    pub reg_copy: usize,
    pub setup_n: usize,
    pub setup_entries: u32,
    pub setup_out: [u32; 30],
    pub setup_ret: i32,
    pub setup_errno: i32,
    pub maps: [(usize, usize, bool); NMAP],
    pub mmap_n: usize,
    pub mmap_args: [(usize, i32, i32, i32, i64); NMAP],
    pub mmap_ret: [*mut libc::c_void; NMAP],
    pub mmap_errno: i32,
    pub munmap_n: u32,
    pub madvise_n: usize,
    pub madvise_ret: [i32; NMAP],
    pub madvise_args: [(usize, usize, i32); NMAP],
    pub closed: [i32; NFD],
    pub close_n: usize,
}
pub(crate) static mut E: Env = Env {
    magic: 0xA10A_10A1_5EED_F00D,
    repoll_cut_on: 0,
    repoll_entries: 0,
    poll_contract: 0,
    fallback_identity: 0,
    fallback_calls: 0,
    lock_fn: None,
    lock_skip: 0,
    env_u16: std::ptr::null(),
    env_new_u16: 0,
    reg_fds0: 0,
    wbf_skip: 0,
    shared_drop_real: 0,
    wbf_calls: 0,
    setup_in: [0; 30],
    munmap_bad: 0,
    wakes: [0; NWAKERS],
    waker_clones: 0,
    waker_drops: 0,
    lock_addr: 0,
    lock_kind: 0,
    lock_fired: 0,
    lock_count: 0,
    env_head: std::ptr::null(),
    env_tail: std::ptr::null(),
    env_len: 0,
    env_new_head: 0,
    env_new_tail: 0,
    evlog: [(0, 0, 0); NEV],
    evn: 0,
    enters: [EnterCall { fd: 0, to_submit: 0, min_complete: 0, flags: 0, has_ts: false, ts_sec: 0, ts_nsec: 0, size: 0 }; NENTER],
    enter_n: 0,
    enter_ret: [0; NENTER],
    enter_errno: [0; NENTER],
    enter_consume: [0; NENTER],
    enter_publish: [0; NENTER],
    k_sq_head: std::ptr::null(),
    k_sq_tail: std::ptr::null(),
    k_cq_tail: std::ptr::null(),
    enter_saw_sq_tail: [0; NENTER],
    errno: 0,
    regs: [RegisterCall { fd: 0, opcode: 0, arg: 0, nr_args: 0, words: [0; 8] }; NREG],
    reg_n: 0,
    reg_ret: [0; NREG],
    reg_errno: [0; NREG],
    reg_copy: 0,
    setup_n: 0,
    setup_entries: 0,
    setup_out: [0; 30],
    setup_ret: 0,
    setup_errno: 0,
    maps: [(0, 0, false); NMAP],
    mmap_n: 0,
    mmap_args: [(0, 0, 0, 0, 0); NMAP],
    mmap_ret: [std::ptr::null_mut(); NMAP],
    mmap_errno: 12,
    munmap_n: 0,
    madvise_n: 0,
    madvise_ret: [0; NMAP],
    madvise_args: [(0, 0, 0); NMAP],
    closed: [0; NFD],
    close_n: 0,
};

// ---------------------------------------------------------------- wakers

pub(crate) const NWAKERS: usize = 6;

unsafe fn w_clone(p: *const ()) -> RawWaker {
    unsafe { E.waker_clones += 1 };
    RawWaker::new(p, &VTABLE)
}
unsafe fn w_wake(p: *const ()) {
    let id = p as usize;
    unsafe {
        E.wakes[id % NWAKERS] += 1;
        E.waker_drops += 1;
    }
}
unsafe fn w_wake_by_ref(p: *const ()) {
    let id = p as usize;
    unsafe { E.wakes[id % NWAKERS] += 1 };
}
unsafe fn w_drop(_p: *const ()) {
    unsafe { E.waker_drops += 1 };
}
static VTABLE: RawWakerVTable = RawWakerVTable::new(w_clone, w_wake, w_wake_by_ref, w_drop);

/// A waker whose identity is `id` (< NWAKERS); waking bumps `E.wakes[id]`.
pub(crate) fn waker(id: usize) -> Waker {
    unsafe { Waker::from_raw(RawWaker::new(id as *const (), &VTABLE)) }
}
pub(crate) fn waker_id(w: &Waker) -> usize {
    w.data() as usize
}
pub(crate) fn wakes(id: usize) -> u32 {
    unsafe { E.wakes[id] }
}
pub(crate) fn total_wakes() -> u32 {
    // straight-line on purpose: harness loops force a larger unwind bound, and CBMC applies that bound to the
    // recursion it sees through function pointers (waker vtables, erased destructors) too — cost explodes.
    unsafe { E.wakes[0] + E.wakes[1] + E.wakes[2] + E.wakes[3] + E.wakes[4] + E.wakes[5] }
}

// ---------------------------------------------------------------- lock hook (rely/guarantee)

/// Address of the Mutex at which the environment acts, and what it does.
/// Ring words the interference may change.

pub(crate) const LK_NONE: u32 = 0;
/// Other submitters appended entries and/or the kernel consumed some: head/tail are
/// replaced by the (harness-chosen, invariant-respecting) values E.env_new_head/E.env_new_tail.
pub(crate) const LK_RING_WORDS: u32 = 1;
/// Other threads changed one 16-bit word (the buffer-ring tail).
pub(crate) const LK_U16_WORD: u32 = 2;
/// Another thread runs a whole (atomic, lock-protected) step: `lock_fn` is called before the lock is taken.
pub(crate) const LK_CALL: u32 = 3;

/// Called (through the injected cfg(kani) line) at the top of `crate::lock`.
pub(crate) fn on_lock(addr: usize) {
    unsafe {
        E.lock_count += 1;
        if E.lock_kind != LK_NONE && addr == E.lock_addr {
            if E.lock_skip > 0 {
                E.lock_skip -= 1;
                return;
            }
            if E.lock_kind == LK_CALL {
                // disarm first: the environment step takes the same lock itself
                E.lock_kind = LK_NONE;
                E.lock_fired += 1;
                if let Some(f) = E.lock_fn {
                    f();
                }
                return;
            }
            if E.lock_kind == LK_RING_WORDS {
                (*E.env_head).store(E.env_new_head, Ordering::SeqCst);
                (*E.env_tail).store(E.env_new_tail, Ordering::SeqCst);
            }
            if E.lock_kind == LK_U16_WORD {
                (E.env_u16 as *mut u16).write(E.env_new_u16);
            }
            E.lock_fired += 1;
            E.lock_kind = LK_NONE;
        }
    }
}

pub(crate) fn repoll_cut() -> bool {
    unsafe {
        E.repoll_entries += 1;
        E.repoll_cut_on != 0 && E.repoll_entries >= 2
    }
}
pub(crate) fn cut_at_repoll() {
    unsafe { E.repoll_cut_on = 1 };
}
pub(crate) fn use_poll_contract() {
    unsafe { E.poll_contract = 1 };
}
pub(crate) fn on_fallback() -> bool {
    unsafe {
        E.fallback_calls += 1;
        E.fallback_identity != 0
    }
}
pub(crate) fn fallback_as_identity() {
    unsafe { E.fallback_identity = 1 };
}
pub(crate) fn on_wake_blocked_futures() -> bool {
    unsafe {
        E.wbf_calls += 1;
        E.wbf_skip != 0
    }
}
pub(crate) fn real_shared_drop() {
    unsafe { E.shared_drop_real = 1 };
}
pub(crate) fn shared_drop_cut() -> bool {
    unsafe { E.shared_drop_real == 0 }
}
pub(crate) fn skip_wake_blocked_futures() {
    unsafe { E.wbf_skip = 1 };
}

// ---------------------------------------------------------------- kernel model

pub(crate) const EV_FENCE: u8 = 1;
pub(crate) const EV_ENTER: u8 = 2;
pub(crate) const EV_REGISTER: u8 = 3;
pub(crate) const EV_SETUP: u8 = 4;
pub(crate) const EV_SET_POLLING_TRUE: u8 = 5;
pub(crate) const EV_SET_POLLING_FALSE: u8 = 6;
pub(crate) const EV_MMAP: u8 = 7;
pub(crate) const EV_MUNMAP: u8 = 8;
pub(crate) const EV_CLOSE: u8 = 9;
pub(crate) const EV_MADVISE: u8 = 10;

pub(crate) const NEV: usize = 16;
/// Ordered log of environment-visible events (syscalls), with two payload words each.

pub(crate) fn ev(kind: u8, a: u64, b: u64) {
    unsafe {
        if E.evn < NEV {
            E.evlog[E.evn] = (kind, a, b);
        }
        E.evn += 1;
    }
}
pub(crate) fn evn() -> usize {
    unsafe { E.evn }
}
pub(crate) fn evat(i: usize) -> (u8, u64, u64) {
    unsafe { E.evlog[i] }
}

#[derive(Copy, Clone)]
pub(crate) struct EnterCall {
    pub fd: i32,
    pub to_submit: u32,
    pub min_complete: u32,
    pub flags: u32,
    pub has_ts: bool,
    pub ts_sec: i64,
    pub ts_nsec: i64,
    pub size: usize,
}
pub(crate) const NENTER: usize = 4;
/// What each successive enter call returns (-1 => errno from E.enter_errno).
/// How many SQEs the kernel consumes in each enter (advance of the SQ head), and how many
/// CQEs it publishes (advance of the CQ tail; the slots were written by the harness).
/// Value of the SQ tail / CQ head the kernel saw at each enter.


/// Sets errno.  CBMC models `__errno_location` (one global), std's `io::Error::last_os_error` reads the
/// same global under Kani; natively this is the real thread-local errno.  No stub is involved.
pub(crate) fn set_errno(e: i32) {
    unsafe {
        E.errno = e;
        *libc::__errno_location() = e;
    }
}

pub(crate) unsafe fn sys_enter2(fd: i32, to_submit: u32, min_complete: u32, flags: u32, arg: *const libc::c_void, size: usize) -> i32 {
    unsafe {
        let i = E.enter_n;
        E.enter_n += 1;
        let mut call = EnterCall { fd, to_submit, min_complete, flags, has_ts: false, ts_sec: 0, ts_nsec: 0, size };
        if !arg.is_null() {
            let a = &*(arg as *const [u64; 3]); // io_uring_getevents_arg: sigmask, (sigmask_sz,min_wait_usec), ts
            let ts = a[2];
            if ts != 0 {
                call.has_ts = true;
                let t = &*(ts as usize as *const [i64; 2]);
                call.ts_sec = t[0];
                call.ts_nsec = t[1];
            }
        }
        ev(EV_ENTER, to_submit as u64, ((flags as u64) << 32) | min_complete as u64);
        if i < NENTER {
            E.enters[i] = call;
            if !E.k_sq_tail.is_null() {
                E.enter_saw_sq_tail[i] = (*E.k_sq_tail).load(Ordering::SeqCst);
            }
            if E.enter_ret[i] == -1 {
                set_errno(E.enter_errno[i]);
                return -1;
            }
            if !E.k_sq_head.is_null() && E.enter_consume[i] != 0 {
                let h = (*E.k_sq_head).load(Ordering::SeqCst);
                (*E.k_sq_head).store(h.wrapping_add(E.enter_consume[i]), Ordering::SeqCst);
            }
            if !E.k_cq_tail.is_null() && E.enter_publish[i] != 0 {
                let t = (*E.k_cq_tail).load(Ordering::SeqCst);
                (*E.k_cq_tail).store(t.wrapping_add(E.enter_publish[i]), Ordering::SeqCst);
            }
            return E.enter_ret[i];
        }
        0
    }
}

#[derive(Copy, Clone)]
pub(crate) struct RegisterCall {
    pub fd: i32,
    pub opcode: u32,
    pub arg: usize,
    pub nr_args: u32,
    /// first 64 bytes behind `arg` when the model knows the layout (SYNC_CANCEL / FILES_UPDATE / SEND_MSG_RING)
    pub words: [u64; 8],
}
pub(crate) const NREG: usize = 4;
/// How many bytes behind `arg` to copy into `words` (0 = none), chosen by the harness.

pub(crate) unsafe fn sys_register(fd: i32, opcode: u32, arg: *const libc::c_void, nr_args: u32) -> i32 {
    unsafe {
        let i = E.reg_n;
        E.reg_n += 1;
        ev(EV_REGISTER, opcode as u64, nr_args as u64);
        if i < NREG {
            let mut words = [0u64; 8];
            if !arg.is_null() && E.reg_copy != 0 {
                let n = E.reg_copy / 8;
                let src = arg as *const u64;
                // straight-line copy (no harness-side loops, see total_wakes)
                if n > 0 { words[0] = src.add(0).read_unaligned(); }
                if n > 1 { words[1] = src.add(1).read_unaligned(); }
                if n > 2 { words[2] = src.add(2).read_unaligned(); }
                if n > 3 { words[3] = src.add(3).read_unaligned(); }
                if n > 4 { words[4] = src.add(4).read_unaligned(); }
                if n > 5 { words[5] = src.add(5).read_unaligned(); }
                if n > 6 { words[6] = src.add(6).read_unaligned(); }
                if n > 7 { words[7] = src.add(7).read_unaligned(); }
            }
            if opcode == 6 /* IORING_REGISTER_FILES_UPDATE */ && !arg.is_null() {
                // struct io_uring_files_update { u32 offset; u32 resv; u64 fds; }
                let fds = (arg as *const u64).add(1).read_unaligned() as usize as *const i32;
                E.reg_fds0 = fds.read();
            }
            E.regs[i] = RegisterCall { fd, opcode, arg: arg as usize, nr_args, words };
            if E.reg_ret[i] == -1 {
                set_errno(E.reg_errno[i]);
                return -1;
            }
            return E.reg_ret[i];
        }
        0
    }
}

/// io_uring_setup: records the parameter block it was given, then lets the harness-provided
/// "kernel answer" overwrite the output fields.

pub(crate) unsafe fn sys_setup(entries: u32, p: *mut libc::c_void) -> i32 {
    unsafe {
        E.setup_n += 1;
        E.setup_entries = entries;
        ev(EV_SETUP, entries as u64, 0);
        // io_uring_params is 120 bytes = 30 words; copied as one block (no loop for CBMC to unwind)
        std::ptr::copy_nonoverlapping(p as *const [u32; 30], std::ptr::addr_of_mut!(E.setup_in), 1);
        if E.setup_ret == -1 {
            set_errno(E.setup_errno);
            return -1;
        }
        std::ptr::copy_nonoverlapping(std::ptr::addr_of!(E.setup_out), p as *mut [u32; 30], 1);
        E.setup_ret
    }
}

/// Stub for `<OwnedFd as Drop>::drop` (std calls its own private copy of libc's `close`, which `kani::stub` on
/// `libc::close` does not reach): records the close in the same ledger as the shadowed `libc::close` a10 calls.
pub(crate) fn owned_fd_drop(fd: &mut std::os::fd::OwnedFd) {
    use std::os::fd::AsRawFd;
    unsafe { close(fd.as_raw_fd()) };
}

// ---------------------------------------------------------------- libc ledger

pub(crate) const NMAP: usize = 4;
/// (addr, len, live)
/// Per call: address the harness wants mmap to return (0 => MAP_FAILED with E.mmap_errno).
pub(crate) const NFD: usize = 4;

pub(crate) unsafe fn mmap(addr: *mut libc::c_void, len: usize, prot: i32, flags: i32, fd: i32, off: i64) -> *mut libc::c_void {
    unsafe {
        let i = E.mmap_n;
        E.mmap_n += 1;
        ev(EV_MMAP, len as u64, off as u64);
        if i >= NMAP {
            set_errno(E.mmap_errno);
            return libc::MAP_FAILED;
        }
        E.mmap_args[i] = (len, prot, flags, fd, off);
        if E.mmap_ret[i].is_null() {
            set_errno(E.mmap_errno);
            return libc::MAP_FAILED;
        }
        E.maps[i] = (E.mmap_ret[i].addr(), len, true);
        E.mmap_ret[i]
    }
}
pub(crate) unsafe fn munmap(addr: *mut libc::c_void, len: usize) -> i32 {
    unsafe {
        E.munmap_n += 1;
        ev(EV_MUNMAP, addr as u64, len as u64);
        let mut k = 0;
        let mut found = false;
        while k < NMAP {
            if E.maps[k].2 && E.maps[k].0 == addr as usize && E.maps[k].1 == len {
                E.maps[k].2 = false;
                found = true;
                break;
            }
            k += 1;
        }
        if !found {
            E.munmap_bad += 1;
            set_errno(22);
            return -1;
        }
        0
    }
}
pub(crate) unsafe fn madvise(addr: *mut libc::c_void, len: usize, advice: i32) -> i32 {
    unsafe {
        let i = E.madvise_n;
        E.madvise_n += 1;
        ev(EV_MADVISE, addr as u64, len as u64);
        if i < NMAP {
            E.madvise_args[i] = (addr as usize, len, advice);
            if E.madvise_ret[i] != 0 {
                set_errno(12);
                return -1;
            }
        }
        0
    }
}
pub(crate) unsafe fn close(fd: i32) -> i32 {
    unsafe {
        ev(EV_CLOSE, fd as u64, 0);
        if E.close_n < NFD {
            E.closed[E.close_n] = fd;
        }
        E.close_n += 1;
        0
    }
}
pub(crate) fn live_maps() -> usize {
    unsafe { E.maps[0].2 as usize + E.maps[1].2 as usize + E.maps[2].2 as usize + E.maps[3].2 as usize }
}

/// Stub for `std::hash::RandomState::new` (the real one asks the OS for random keys): fixed keys.  Only affects the
/// iteration order / hashing of the watch table, which no obligation depends on.
pub(crate) fn fixed_random_state() -> std::hash::RandomState {
    unsafe { std::mem::transmute::<(u64, u64), std::hash::RandomState>((0x0123_4567_89ab_cdef, 0xfedc_ba98_7654_3210)) }
}

// ---------------------------------------------------------------- waker call stubs
// CBMC resolves a call through a raw function pointer (RawWakerVTable entries are `unsafe fn(*const ())`) to EVERY
// address-taken function of a compatible C type — which includes every `drop_in_place::<T>` stored in any trait-object
// vtable in the cone (io::Error's boxed payload, ...), a10's erased `drop_state`, etc.  One waker call can therefore
// drag in (recursively) unrelated drop glue and make symbolic execution explode.  The harness wakers all use the
// vtable above, so the four Waker entry points are replaced (under verification only; natively the real vtable
// functions run and do the same) by direct, function-pointer-free equivalents.  Marker in harness files:
// a line `//@waker_stubs` above `#[kani::proof]` is expanded to the four #[kani::stub] attributes at injection time.
pub(crate) fn stub_waker_wake(w: Waker) {
    let id = w.data() as usize;
    unsafe {
        E.wakes[id % NWAKERS] += 1;
        E.waker_drops += 1;
    }
    std::mem::forget(w);
}
pub(crate) fn stub_waker_wake_by_ref(w: &Waker) {
    let id = w.data() as usize;
    unsafe { E.wakes[id % NWAKERS] += 1 };
}
pub(crate) fn stub_waker_drop(_w: &mut Waker) {
    unsafe { E.waker_drops += 1 };
}
pub(crate) fn stub_waker_clone(w: &Waker) -> Waker {
    unsafe {
        E.waker_clones += 1;
        Waker::new(w.data(), w.vtable())
    }
}
