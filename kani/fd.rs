//! Harnesses for `src/io_uring/fd.rs` — AsyncFd ownership of its descriptor (C07).
#![allow(dead_code, unused, static_mut_refs)]

use super::*;
use crate::io_uring::sq::verif_sq::{W, any_sqe, sqe_bytes, subs_of, zero_sqe};
use crate::io_uring::verif_uring::{self as vu, FakeSq, ring_inv};
use crate::verif_env as env;
use std::mem::ManuallyDrop;
use std::sync::atomic::Ordering;

pub(crate) fn any_kind() -> Kind {
    if kani::any() { Kind::File } else { Kind::Direct }
}

// =========================================================================================
// C07  c07.fd_bits — the descriptor word: kind and number round-trip for every descriptor >= 0
// =========================================================================================
#[kani::proof]
#[kani::unwind(3)]
fn c07_fd_bits() {
    let mut ring = FakeSq::<1>::new(0, 0, 0);
    let subs = subs_of(ring.shared(1, false, false));
    let fd: RawFd = kani::any();
    kani::assume(fd >= 0);
    let kind = any_kind();
    let a = unsafe { AsyncFd::from_raw(fd, kind, crate::verif_lib::sq_from((*subs).clone())) };
    assert!(a.fd() == fd, "descriptor number survives the kind encoding");
    assert!(a.kind() == kind, "kind survives");
    std::mem::forget(a);
    kani::cover!(fd == i32::MAX && matches!(kind, Kind::Direct), "largest direct index");
    kani::cover!(fd == 0 && matches!(kind, Kind::File), "fd 0");
}

fn expected_close(fd: RawFd, kind: Kind) -> W {
    let mut e = zero_sqe();
    e.0.opcode = libc::IORING_OP_CLOSE as u8;
    match kind {
        Kind::File => e.0.fd = fd,
        Kind::Direct => e.0.__bindgen_anon_5 = libc::io_uring_sqe__bindgen_ty_5 { file_index: (fd as u32).wrapping_add(1) },
    }
    e.0.user_data = CLOSE_USER_DATA;
    e.0.flags = libc::IOSQE_CQE_SKIP_SUCCESS;
    sqe_bytes(&e)
}

// =========================================================================================
// C07  c07.drop — dropping an AsyncFd closes its descriptor exactly once, the right way:
//   room in the queue => exactly one CLOSE request (regular: fd; direct: file_index = fd + 1), reserved user_data,
//                        no success event, no synchronous close;
//   queue full        => no request; regular: exactly one close(fd); direct: exactly one
//                        REGISTER_FILES_UPDATE{offset = fd, fds = [-1]}.
// =========================================================================================
//@waker_stubs
#[kani::proof]
#[kani::unwind(3)]
fn c07_drop() {
    let h: u32 = kani::any();
    let t: u32 = kani::any();
    kani::assume(ring_inv(h, t, 2));
    let mut ring = FakeSq::<2>::new(h, t, 0);
    ring.sqes[0] = any_sqe();
    ring.sqes[1] = any_sqe();
    let before = [sqe_bytes(&ring.sqes[0]), sqe_bytes(&ring.sqes[1])];
    let subs = subs_of(ring.shared(2, false, false));
    let fd: RawFd = kani::any();
    kani::assume(fd >= 0 && fd < i32::MAX); // direct indices are < the (u32) table size the kernel accepts
    let kind = any_kind();
    let a = unsafe { AsyncFd::from_raw(fd, kind, crate::verif_lib::sq_from((*subs).clone())) };
    unsafe { env::E.reg_copy = 16 };
    drop(a);
    let room = t.wrapping_sub(h) < 2;
    let t2 = ring.tail.load(Ordering::SeqCst);
    let closes = unsafe { env::E.close_n };
    let regs = unsafe { env::E.reg_n };
    if room {
        assert!(t2 == t.wrapping_add(1), "exactly one request");
        let idx = (t & 1) as usize;
        assert!(sqe_bytes(&ring.sqes[idx]) == expected_close(fd, kind), "CLOSE of exactly this descriptor, as its kind");
        assert!(sqe_bytes(&ring.sqes[1 - idx]) == before[1 - idx]);
        assert!(closes == 0 && regs == 0, "not closed a second time synchronously");
    } else {
        assert!(t2 == t, "queue full: nothing queued");
        match kind {
            Kind::File => {
                assert!(closes == 1 && unsafe { env::E.closed[0] } == fd && regs == 0, "regular descriptor closed with close(2), once");
            }
            Kind::Direct => {
                assert!(closes == 0 && regs == 1, "direct descriptor never passed to close(2)");
                let call = unsafe { env::E.regs[0] };
                assert!(call.opcode == libc::IORING_REGISTER_FILES_UPDATE && call.nr_args == 1 && call.fd == vu::RING_FD);
                assert!(call.words[0] == fd as u32 as u64, "offset == the direct index, reserved field zero");
                assert!(unsafe { env::E.reg_fds0 } == -1, "the slot is cleared (-1)");
            }
        }
    }
    assert!(unsafe { env::E.enter_n } == 0);
    kani::cover!(room && matches!(kind, Kind::Direct), "direct, queued");
    kani::cover!(!room && matches!(kind, Kind::Direct), "direct, synchronous");
    kani::cover!(!room && matches!(kind, Kind::File), "regular, synchronous");
    kani::cover!(room && t < h, "queued, wrapped counters");
}

// =========================================================================================
// C07/C13  to_direct / to_fd — descriptor conversions
// =========================================================================================
#[kani::proof]
#[kani::unwind(3)]
fn c13_enc_to_direct() {
    let fd: RawFd = kani::any();
    let mut res: ((), RawFd) = ((), fd);
    let mut s = zero_sqe();
    <ToDirectOp<()> as Op>::fill_submission(&mut res, &mut (), &mut s);
    let mut e = zero_sqe();
    e.0.opcode = libc::IORING_OP_FILES_UPDATE as u8;
    e.0.fd = -1;
    e.0.__bindgen_anon_1 = libc::io_uring_sqe__bindgen_ty_1 { off: libc::IORING_FILE_INDEX_ALLOC as u64 };
    e.0.__bindgen_anon_2 = libc::io_uring_sqe__bindgen_ty_2 { addr: std::ptr::from_ref(&res.1).addr() as u64 };
    e.0.len = 1;
    assert!(sqe_bytes(&s) == sqe_bytes(&e), "FILES_UPDATE(ALLOC) of one descriptor; the in/out word is the one inside Resources (C01)");
    assert!(res.1 == fd);
    kani::cover!(true, "end");
}

#[kani::proof]
#[kani::unwind(3)]
fn c07_wrap_to_direct() {
    let mut ring = FakeSq::<1>::new(0, 0, 0);
    let subs = subs_of(ring.shared(1, false, false));
    let sq = ManuallyDrop::new(crate::verif_lib::sq_from((*subs).clone()));
    let dfd: RawFd = kani::any();
    kani::assume(dfd >= 0);
    let a = <ToDirectOp<()> as Op>::map_ok(&sq, ((), dfd), (crate::io_uring::op::verif_op::cflags(0), 1));
    assert!(a.fd() == dfd && a.kind() == Kind::Direct, "the index the kernel wrote back becomes one direct AsyncFd");
    std::mem::forget(a);
    kani::cover!(true, "end");
}

#[kani::proof]
#[kani::unwind(3)]
fn c07_wrap_to_fd() {
    let mut ring = FakeSq::<1>::new(0, 0, 0);
    let subs = subs_of(ring.shared(1, false, false));
    let dfd: RawFd = kani::any();
    kani::assume(dfd >= 0);
    let o = ManuallyDrop::new(unsafe { AsyncFd::from_raw(dfd, Kind::Direct, crate::verif_lib::sq_from((*subs).clone())) });
    let mut s = zero_sqe();
    <ToFdOp as FdOp>::fill_submission(&o, &mut (), &mut (), &mut s);
    let mut e = zero_sqe();
    e.0.opcode = libc::IORING_OP_FIXED_FD_INSTALL as u8;
    e.0.fd = dfd;
    assert!(sqe_bytes(&s) == sqe_bytes(&e), "FIXED_FD_INSTALL of this direct descriptor, flags 0 (FIXED_FILE is added by the target)");
    let fd: u32 = kani::any();
    kani::assume(fd <= i32::MAX as u32);
    let a = <ToFdOp as FdOp>::map_ok(&o, (), (crate::io_uring::op::verif_op::cflags(0), fd));
    assert!(a.fd() == fd as i32 && a.kind() == Kind::File, "result is one regular AsyncFd");
    assert!(o.fd() == dfd && o.kind() == Kind::Direct, "the direct descriptor stays owned by the original");
    std::mem::forget(a);
    kani::cover!(true, "end");
}
