//! Harnesses for `src/io_uring/fs.rs` (child module): request encoders / result decoders of the file-system
//! operations (C13), descriptor wrapping of open (C07).  Loop-free, full argument domain.
#![allow(dead_code, unused, static_mut_refs)]

use super::*;
use crate::io_uring::net::verif_net::{any_kind, set_create};
use crate::io_uring::op::verif_op::cflags;
use crate::io_uring::sq::verif_sq::{W, sqe_bytes, subs_of, zero_sqe};
use crate::io_uring::verif_uring::FakeSq;
use crate::verif_env as env;
use crate::verif_lib::sq_from;
use std::mem::ManuallyDrop;

fn path() -> CString {
    // NOTE: no `c".."` literal (unsupported by Kani 0.68)
    unsafe { CString::from_vec_unchecked(vec![b'a', b'b']) }
}
fn mk_fd(subs: &crate::io_uring::sq::Submissions) -> (ManuallyDrop<AsyncFd>, i32) {
    let n: i32 = kani::any();
    kani::assume(n >= 0);
    (ManuallyDrop::new(unsafe { AsyncFd::from_raw(n, any_kind(), sq_from(subs.clone())) }), n)
}

/// openat(AT_FDCWD, path, flags, mode): the path pointer is the CString owned by Resources (C01)
#[kani::proof]
#[kani::unwind(4)]
fn c13_enc_open() {
    let kind = any_kind();
    let mut res = (path(), kind);
    let flags: i32 = kani::any();
    let mode: u32 = kani::any();
    let mut args = (flags, mode);
    let mut s = zero_sqe();
    <OpenOp as Op>::fill_submission(&mut res, &mut args, &mut s);
    let mut e = zero_sqe();
    e.0.opcode = libc::IORING_OP_OPENAT as u8;
    e.0.fd = libc::AT_FDCWD;
    e.0.__bindgen_anon_2 = libc::io_uring_sqe__bindgen_ty_2 { addr: res.0.as_ptr().addr() as u64 };
    e.0.len = mode;
    e.0.__bindgen_anon_3 = libc::io_uring_sqe__bindgen_ty_3 { open_flags: flags as u32 };
    set_create(&mut e, kind);
    assert!(sqe_bytes(&s) == sqe_bytes(&e), "OPENAT == openat(AT_FDCWD, path, flags, mode) [+ direct slot allocation]");
    std::mem::forget(res);
    kani::cover!(matches!(kind, fd::Kind::Direct), "direct");
    kani::cover!(matches!(kind, fd::Kind::File), "regular");
}

/// C07: the descriptor returned by open is wrapped exactly once with the requested kind
#[kani::proof]
#[kani::unwind(4)]
fn c07_wrap_open() {
    let mut ring = FakeSq::<1>::new(0, 0, 0);
    let subs = subs_of(ring.shared(1, false, false));
    let sq = ManuallyDrop::new(sq_from((*subs).clone()));
    let kind = any_kind();
    let fd: u32 = kani::any();
    kani::assume(fd <= i32::MAX as u32);
    let a = <OpenOp as Op>::map_ok(&sq, (path(), kind), (cflags(0), fd));
    assert!(a.fd() == fd as i32 && a.kind() == kind);
    std::mem::forget(a);
    assert!(unsafe { env::E.close_n } == 0);
    kani::cover!(matches!(kind, fd::Kind::Direct), "direct");
}

/// mkdirat / renameat / unlinkat
#[kani::proof]
#[kani::unwind(4)]
fn c13_enc_paths() {
    let mut p = path();
    let mut s = zero_sqe();
    <CreateDirOp as Op>::fill_submission(&mut p, &mut (), &mut s);
    let mut e = zero_sqe();
    e.0.opcode = libc::IORING_OP_MKDIRAT as u8;
    e.0.fd = libc::AT_FDCWD;
    e.0.__bindgen_anon_2 = libc::io_uring_sqe__bindgen_ty_2 { addr: p.as_ptr().addr() as u64 };
    e.0.len = 0o777;
    assert!(sqe_bytes(&s) == sqe_bytes(&e), "MKDIRAT == mkdirat(AT_FDCWD, path, 0777)");

    let mut both = (path(), path());
    let mut s = zero_sqe();
    <RenameOp as Op>::fill_submission(&mut both, &mut (), &mut s);
    let mut e = zero_sqe();
    e.0.opcode = libc::IORING_OP_RENAMEAT as u8;
    e.0.fd = libc::AT_FDCWD;
    e.0.__bindgen_anon_1 = libc::io_uring_sqe__bindgen_ty_1 { off: both.1.as_ptr().addr() as u64 };
    e.0.__bindgen_anon_2 = libc::io_uring_sqe__bindgen_ty_2 { addr: both.0.as_ptr().addr() as u64 };
    e.0.len = libc::AT_FDCWD as u32;
    assert!(sqe_bytes(&s) == sqe_bytes(&e), "RENAMEAT == renameat(AT_FDCWD, from, AT_FDCWD, to): old path in addr, new path in off");

    let dir: bool = kani::any();
    let mut fl = if dir { RemoveFlag::Directory } else { RemoveFlag::File };
    let mut s = zero_sqe();
    <DeleteOp as Op>::fill_submission(&mut p, &mut fl, &mut s);
    let mut e = zero_sqe();
    e.0.opcode = libc::IORING_OP_UNLINKAT as u8;
    e.0.fd = libc::AT_FDCWD;
    e.0.__bindgen_anon_2 = libc::io_uring_sqe__bindgen_ty_2 { addr: p.as_ptr().addr() as u64 };
    e.0.__bindgen_anon_3 = libc::io_uring_sqe__bindgen_ty_3 { unlink_flags: if dir { libc::AT_REMOVEDIR as u32 } else { 0 } };
    assert!(sqe_bytes(&s) == sqe_bytes(&e), "UNLINKAT == unlinkat(AT_FDCWD, path, AT_REMOVEDIR iff directory)");
    std::mem::forget(p);
    std::mem::forget(both);
    kani::cover!(dir, "rmdir");
    kani::cover!(!dir, "unlink");
}

/// fsync/fdatasync, statx, posix_fadvise, fallocate, ftruncate on a descriptor
#[kani::proof]
#[kani::unwind(4)]
fn c13_enc_fd_ops() {
    let mut ring = FakeSq::<1>::new(0, 0, 0);
    let subs = subs_of(ring.shared(1, false, false));
    let (afd, n) = mk_fd(&subs);

    let data: bool = kani::any();
    let mut fl = if data { SyncDataFlag::Data } else { SyncDataFlag::All };
    let mut s = zero_sqe();
    <SyncDataOp as FdOp>::fill_submission(&afd, &mut (), &mut fl, &mut s);
    let mut e = zero_sqe();
    e.0.opcode = libc::IORING_OP_FSYNC as u8;
    e.0.fd = n;
    e.0.__bindgen_anon_3 = libc::io_uring_sqe__bindgen_ty_3 { fsync_flags: if data { libc::IORING_FSYNC_DATASYNC } else { 0 } };
    assert!(sqe_bytes(&s) == sqe_bytes(&e), "FSYNC: fsync, or fdatasync with DATASYNC");

    // NOTE: StatOp::fill_submission uses a `c""` literal, which Kani 0.68 cannot compile: its encoder is not under
    // contract (listed as out of reach in DESIGN.md).

    let off: u64 = kani::any();
    let len: u32 = kani::any();
    let adv: u32 = kani::any();
    let mut a = (off, len, AdviseFlag(adv));
    let mut s = zero_sqe();
    <AdviseOp as FdOp>::fill_submission(&afd, &mut (), &mut a, &mut s);
    let mut e = zero_sqe();
    e.0.opcode = libc::IORING_OP_FADVISE as u8;
    e.0.fd = n;
    e.0.__bindgen_anon_1 = libc::io_uring_sqe__bindgen_ty_1 { off };
    e.0.len = len;
    e.0.__bindgen_anon_3 = libc::io_uring_sqe__bindgen_ty_3 { fadvise_advice: adv };
    assert!(sqe_bytes(&s) == sqe_bytes(&e), "FADVISE == posix_fadvise(fd, offset, len, advice)");

    let mode: u32 = kani::any();
    let mut a = (off, len, AllocateMode(mode));
    let mut s = zero_sqe();
    <AllocateOp as FdOp>::fill_submission(&afd, &mut (), &mut a, &mut s);
    let mut e = zero_sqe();
    e.0.opcode = libc::IORING_OP_FALLOCATE as u8;
    e.0.fd = n;
    e.0.__bindgen_anon_1 = libc::io_uring_sqe__bindgen_ty_1 { off };
    e.0.__bindgen_anon_2 = libc::io_uring_sqe__bindgen_ty_2 { addr: len as u64 };
    e.0.len = mode;
    assert!(sqe_bytes(&s) == sqe_bytes(&e), "FALLOCATE == fallocate(fd, mode, offset, len): len in addr, mode in len");

    let mut l = off;
    let mut s = zero_sqe();
    <TruncateOp as FdOp>::fill_submission(&afd, &mut (), &mut l, &mut s);
    let mut e = zero_sqe();
    e.0.opcode = libc::IORING_OP_FTRUNCATE as u8;
    e.0.fd = n;
    e.0.__bindgen_anon_1 = libc::io_uring_sqe__bindgen_ty_1 { off };
    assert!(sqe_bytes(&s) == sqe_bytes(&e), "FTRUNCATE == ftruncate(fd, length)");
    kani::cover!(data, "fdatasync");
    kani::cover!(!data, "fsync");
}
