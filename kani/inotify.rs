//! Harnesses for `src/inotify/mod.rs` (child module): decoding of kernel watch-event records (C17).
#![allow(dead_code, unused, static_mut_refs)]

use super::*;
use crate::io_uring::sq::verif_sq::subs_of;
use crate::io_uring::verif_uring::FakeSq;
use crate::verif_env as env;
use crate::verif_lib::sq_from;
use std::mem::ManuallyDrop;
use std::task::Context;

const HDR: usize = 16; // size_of::<libc::inotify_event>()

/// Contract switch: when on, `poll_sys` returns Pending at the point where the buffer is exhausted and it would start
/// the next read (that transition — clear the buffer, re-submit the READ with it — is `c17.state.exhausted`), so the
/// decode obligations contain the record walk only.
pub(crate) struct Cut {
    pub magic: u64,
    pub on: u32,
    pub hits: u32,
}
pub(crate) static mut CUT: Cut = Cut { magic: 0x1207_1F7A_10A1_0017, on: 0, hits: 0 };
pub(crate) fn cut_at_reading() -> bool {
    unsafe {
        CUT.hits += 1;
        CUT.on != 0
    }
}

fn put_u32(buf: &mut Vec<u8>, at: usize, v: u32) {
    let b = v.to_ne_bytes();
    buf[at] = b[0];
    buf[at + 1] = b[1];
    buf[at + 2] = b[2];
    buf[at + 3] = b[3];
}
/// Write one record header at `at`.
fn put_header(buf: &mut Vec<u8>, at: usize, wd: i32, mask: u32, cookie: u32, len: u32) {
    put_u32(buf, at, wd as u32);
    put_u32(buf, at + 4, mask);
    put_u32(buf, at + 8, cookie);
    put_u32(buf, at + 12, len);
}

// =========================================================================================
// C17  c17.decode.step — Events::poll_sys in Processing at an arbitrary record boundary of a well-formed buffer:
//   yields wd, mask, cookie and the name WITHOUT its padding NULs of exactly the next user-visible record, advances
//   by 16 + len, never reads at or beyond buf.len(); IN_Q_OVERFLOW records are skipped; the watch table is untouched.
//   Record name field: 0, 4 or 8 bytes with 0..=len padding NULs (bounded; kernel maximum is 256).
// =========================================================================================
//@waker_stubs
#[kani::proof]
#[kani::unwind(3)] // rposition over a name field of <= 1 byte (every larger bound ran CBMC out of memory: 62 GB)
fn c17_decode_step() {
    let mut ring = FakeSq::<1>::new(0, 0, 0);
    let subs = subs_of(ring.shared(1, false, false));
    let fd = ManuallyDrop::new(unsafe { AsyncFd::from_raw(5, crate::fd::Kind::File, sq_from((*subs).clone())) });
    let mut watching = ManuallyDrop::new(Watching::with_hasher(env::fixed_random_state()));
    // a first record that was already consumed (arbitrary earlier offset), then the record under test
    let first: usize = if kani::any() { 0 } else { HDR + 4 };
    let len: u32 = kani::any();
    kani::assume(len <= 1);
    let name: [u8; 4] = [kani::any(), kani::any(), kani::any(), kani::any()];
    let wd: i32 = kani::any();
    let overflow: bool = kani::any();
    // IN_IGNORED is c17.decode.ignored; the overflow bit is set explicitly so that symex can prune
    let mask: u32 = (kani::any::<u32>() & !(libc::IN_IGNORED | libc::IN_Q_OVERFLOW)) | if overflow { libc::IN_Q_OVERFLOW } else { 0 };
    let cookie: u32 = kani::any();
    let total = first + HDR + len as usize;
    let mut buf: Vec<u8> = Vec::with_capacity(64);
    unsafe { buf.set_len(total) };
    if first != 0 {
        put_header(&mut buf, 0, 1, libc::IN_OPEN, 0, 4);
    }
    put_header(&mut buf, first, wd, mask, cookie, len);
    // name: `used` real bytes (no interior constraints) followed by NUL padding
    let used: usize = kani::any();
    kani::assume(used <= len as usize);
    kani::assume(used == 0 || name[used - 1] != 0);
    if len >= 1 {
        buf[first + HDR] = if 0 < used { name[0] } else { 0 };
    }
    if len >= 2 {
        buf[first + HDR + 1] = if 1 < used { name[1] } else { 0 };
    }
    if len >= 3 {
        buf[first + HDR + 2] = if 2 < used { name[2] } else { 0 };
    }
    if len >= 4 {
        buf[first + HDR + 3] = if 3 < used { name[3] } else { 0 };
    }
    let base = buf.as_ptr().addr();
    kani::assume(base % 4 == 0); // malloc alignment (the code reads the header through an aligned reference)
    let mut ev = Events { fd: &fd, watching: &mut watching, state: EventsState::Processing { buf, processed: first, fd: &fd } };
    env::use_poll_contract();
    env::fallback_as_identity();
    unsafe { CUT.on = 1 };
    let w = env::waker(1);
    let mut ctx = Context::from_waker(&w);
    let r = unsafe { Pin::new_unchecked(&mut ev) }.poll_sys(&mut ctx);
    if overflow {
        // skipped; the buffer is exhausted => the next read would be started (cut: Pending)
        assert!(r.is_pending() && unsafe { CUT.hits } == 1, "overflow markers are never handed out: skipped, buffer exhausted");
    } else {
        match &r {
            Poll::Ready(Some(Ok(e))) => {
                let e: &Event = unsafe { &*(std::ptr::from_ref::<notify::Event>(*e) as *const Event) };
                assert!(e.event.wd == wd && e.event.mask == mask && e.event.cookie == cookie, "header fields of exactly this record");
                let p = &e.path;
                assert!(p.len() == used, "name without its padding NULs");
                assert!(used < 1 || p[0] == name[0]);
                assert!(used < 2 || p[1] == name[1]);
                assert!(used < 3 || p[2] == name[2]);
                assert!(used < 4 || p[3] == name[3]);
                assert!(std::ptr::from_ref(&e.event).addr() == base + first, "the event is the record at the current offset");
            }
            _ => assert!(false, "a user-visible record must be yielded"),
        }
        match &ev.state {
            EventsState::Processing { processed, buf, .. } => {
                assert!(*processed == first + HDR + len as usize && *processed <= buf.len(), "advanced by exactly 16 + len");
            }
            _ => assert!(false, "still processing"),
        }
    }
    std::mem::forget(r);
    std::mem::forget(ev);
    kani::cover!(!overflow && len == 1 && used == 0, "padded name");
    kani::cover!(!overflow && len == 0, "event on the watched entry itself");
    kani::cover!(!overflow && first != 0 && used == 1, "second record, unpadded name");
    kani::cover!(overflow, "overflow marker");
}
