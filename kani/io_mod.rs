//! Harnesses for `src/io/mod.rs` (child module of `crate::io`): AsyncFd::close, standard streams (C07),
//! composite I/O step contracts (C10).
#![allow(dead_code, unused, static_mut_refs)]

use super::*;
use crate::fd::Kind;
use crate::io_uring::sq::verif_sq::{W, any_sqe, sqe_bytes, subs_of, zero_sqe};
use crate::io_uring::verif_uring::{self as vu, FakeSq, abi, ring_inv};
use crate::verif_env as env;
use crate::verif_lib::sq_from;
use std::sync::atomic::Ordering;

/// Re-export of the instrumented buffer (io::traits is a private module).
pub(crate) use super::traits::verif_traits::{TB, any_tb};

// =========================================================================================
// C07  c07.close.consumes — AsyncFd::close consumes the AsyncFd without running its Drop: it issues no request
//      and no close itself, and the Close operation carries exactly the descriptor and kind.
// =========================================================================================
#[kani::proof]
#[kani::unwind(3)]
fn c07_close_consumes() {
    let mut ring = FakeSq::<2>::new(0, 0, 0);
    let subs = subs_of(ring.shared(2, false, false));
    let fd: i32 = kani::any();
    kani::assume(fd >= 0);
    let kind = if kani::any() { Kind::File } else { Kind::Direct };
    let a = unsafe { AsyncFd::from_raw(fd, kind, sq_from((*subs).clone())) };
    let c = a.close();
    assert!(ring.tail.load(Ordering::SeqCst) == 0, "close() queues nothing before it is polled");
    assert!(unsafe { env::E.close_n } == 0 && unsafe { env::E.reg_n } == 0 && unsafe { env::E.enter_n } == 0, "and closes nothing itself (no Drop of the consumed AsyncFd)");
    let (afd, akind) = *c.state.args();
    assert!(afd == fd && akind == kind, "the Close operation targets exactly this descriptor, as its kind");
    std::mem::forget(c);
    kani::cover!(matches!(kind, Kind::Direct), "direct");
    kani::cover!(matches!(kind, Kind::File), "regular");
}

// =========================================================================================
// C07  c07.stdio — dropping Stdin/Stdout/Stderr never closes the standard stream
// =========================================================================================
#[kani::proof]
#[kani::unwind(3)]
fn c07_stdio() {
    let h: u32 = kani::any();
    let t: u32 = kani::any();
    kani::assume(ring_inv(h, t, 2));
    let mut ring = FakeSq::<2>::new(h, t, 0);
    let subs = subs_of(ring.shared(2, false, false));
    let which: u8 = kani::any();
    kani::assume(which < 3);
    match which {
        0 => {
            let s = stdin(sq_from((*subs).clone()));
            assert!(s.fd() == 0 && s.kind() == Kind::File);
            drop(s);
        }
        1 => {
            let s = stdout(sq_from((*subs).clone()));
            assert!(s.fd() == 1 && s.kind() == Kind::File);
            drop(s);
        }
        _ => {
            let s = stderr(sq_from((*subs).clone()));
            assert!(s.fd() == 2 && s.kind() == Kind::File);
            drop(s);
        }
    }
    assert!(ring.tail.load(Ordering::SeqCst) == t, "no CLOSE request");
    assert!(unsafe { env::E.close_n } == 0 && unsafe { env::E.reg_n } == 0, "no close(2)");
    kani::cover!(which == 0, "stdin");
    kani::cover!(which == 2, "stderr");
    kani::cover!(t.wrapping_sub(h) == 2, "even with a full queue");
}

// =========================================================================================
// C10  step contracts of the all-or-error composite operations, from an ARBITRARY intermediate state
//   (skip, offset, remaining) with the inner operation's final completion forced to Done(n).
//   Buffers live in a real 64-byte backing store (the continuation does pointer arithmetic), lengths <= 16: bounded.
// =========================================================================================
use crate::io_uring::op::verif_op::{St, force_done, status_any, user_data_of};
use crate::io_uring::net::verif_net::{any_kind, fixed};
use std::future::Future;
use std::pin::Pin;
use std::task::{Context, Poll};

static mut BACKING: [u8; 64] = [0xA5; 64];
pub(crate) const MAXLEN: u32 = 16;

/// Real-memory buffer: `len` initialised bytes at `ptr`, capacity `cap`.
#[derive(Copy, Clone)]
pub(crate) struct RB {
    pub ptr: *mut u8,
    pub cap: u32,
    pub len: u32,
}
unsafe impl Buf for RB {
    unsafe fn parts(&self) -> (*const u8, u32) {
        (self.ptr.cast_const(), self.len)
    }
}
unsafe impl BufMut for RB {
    unsafe fn parts_mut(&mut self) -> (*mut u8, u32) {
        (unsafe { self.ptr.add(self.len as usize) }, self.cap - self.len)
    }
    unsafe fn set_init(&mut self, n: usize) {
        assert!(n <= (self.cap - self.len) as usize);
        self.len += n as u32;
    }
    fn spare_capacity(&self) -> u32 {
        self.cap - self.len
    }
}
/// Buffer number `slot` (0..3) of the backing store with symbolic length / capacity <= MAXLEN.
pub(crate) fn any_rb(slot: usize) -> RB {
    let cap: u32 = kani::any();
    let len: u32 = kani::any();
    kani::assume(cap <= MAXLEN && len <= cap);
    RB { ptr: unsafe { std::ptr::addr_of_mut!(BACKING).cast::<u8>().add(slot * MAXLEN as usize) }, cap, len }
}
pub(crate) fn mk_fd(subs: &crate::io_uring::sq::Submissions) -> (std::mem::ManuallyDrop<AsyncFd>, i32, Kind) {
    let n: i32 = kani::any();
    kani::assume(n >= 0);
    let kind = any_kind();
    (std::mem::ManuallyDrop::new(unsafe { AsyncFd::from_raw(n, kind, sq_from(subs.clone())) }), n, kind)
}

/// What the step left for the re-poll: status, the SkipBuf handed to reset, the offset argument.
fn write_state<'fd>(w: &WriteAll<'fd, RB>) -> (St, u32, u64) {
    let st = status_any(&w.write.fut.state);
    let skip = crate::io_uring::op::verif_op::peek_resources(&w.write.fut.state).skip;
    (st, skip, *w.write.fut.state.args())
}

/// write_all step: n == 0 => WriteZero; skip+n == len => Ok(original buffer), nothing re-armed; otherwise the inner
/// operation is re-armed (NotStarted) with the SAME buffer, skip' = skip+n and offset' = offset+n (or still "current
/// position") and re-polled.  [The re-poll submits WRITE(fd, ptr+skip', len-skip', offset'): op.poll.not_started,
/// c13.enc.write and c10.skipbuf.]
//@waker_stubs
#[kani::proof]
#[kani::unwind(3)]
fn c10_write_all_step() {
    let mut ring = FakeSq::<2>::new(0, 0, 0);
    let subs = subs_of(ring.shared(2, false, false));
    let (afd, fdn, kind) = mk_fd(&subs);
    let buf = any_rb(0);
    kani::assume(buf.len >= 1);
    let skip: u32 = kani::any();
    kani::assume(skip < buf.len);
    let positional: bool = kani::any();
    let offset: u64 = if positional { kani::any() } else { NO_OFFSET };
    kani::assume(!positional || offset <= u64::MAX - 64); // an explicit offset is a real file offset, not the NO_OFFSET marker
    let mut w = afd.write_all(buf);
    if positional {
        w = w.at(offset);
    }
    w.write.fut.state.resources_mut().unwrap().skip = skip;
    let n: u32 = kani::any();
    kani::assume(n <= buf.len - skip);
    force_done(&w.write.fut.state, n as i32, 0);
    env::fallback_as_identity();
    env::use_poll_contract();
    env::cut_at_repoll();
    let waker = env::waker(4);
    let mut ctx = Context::from_waker(&waker);
    let r = unsafe { Pin::new_unchecked(&mut w) }.poll_inner(&mut ctx);
    assert!(ring.tail.load(Ordering::SeqCst) == 0);
    if n == 0 {
        assert!(matches!(&r, Poll::Ready(Err(e)) if e.kind() == io::ErrorKind::WriteZero), "nothing accepted => WriteZero");
    } else if skip + n == buf.len {
        assert!(matches!(&r, Poll::Ready(Ok(b)) if b.ptr == buf.ptr && b.len == buf.len && b.cap == buf.cap), "everything written => Ok with the caller's original buffer");
        assert!(unsafe { env::E.repoll_entries } == 1, "no re-poll");
    } else {
        assert!(r.is_pending() && unsafe { env::E.repoll_entries } == 2, "bytes left => re-armed and re-polled");
        let (st, skip2, off2) = write_state(&w);
        assert!(st == St::NotStarted, "inner operation re-armed");
        assert!(skip2 == skip + n, "continues right after the bytes the kernel accepted");
        assert!(off2 == if positional { offset + n as u64 } else { NO_OFFSET } && w.offset == off2, "at the advanced offset (or still at the current position)");
        let b = crate::io_uring::op::verif_op::peek_resources(&w.write.fut.state).buf;
        assert!(b.ptr == buf.ptr && b.len == buf.len && b.cap == buf.cap, "same buffer");
    }
    std::mem::forget(r);
    std::mem::forget(w);
    // reachability witnesses (each MUST fail; CBMC reports ERROR for cover goals on formulas of this size)
    assert!(!(n > 0 && skip + n < buf.len && positional), "CANARY: positional continuation reachable");
    assert!(!(n > 0 && skip + n < buf.len && !positional && skip > 0), "CANARY: second continuation at the current position reachable");
    assert!(!(skip + n == buf.len && skip > 0), "CANARY: finished after a partial write reachable");
    assert!(n != 0, "CANARY: write zero reachable");
}

/// SkipBuf: the wrapper the single-buffer continuations rely on — exposes exactly the bytes behind `skip`
#[kani::proof]
#[kani::unwind(3)]
fn c10_skipbuf() {
    let buf = any_rb(0);
    let skip: u32 = kani::any();
    let sb = SkipBuf { buf, skip };
    let (p, l) = unsafe { Buf::parts(&sb) };
    if skip >= buf.len {
        assert!(l == 0, "everything skipped: empty");
    } else {
        assert!(p.addr() == buf.ptr.addr() + skip as usize && l == buf.len - skip, "parts == (ptr + skip, len - skip)");
    }
    assert!(Buf::len(&sb) == l as usize && Buf::is_empty(&sb) == (l == 0));
    kani::cover!(skip > buf.len, "skip beyond the end");
    kani::cover!(skip > 0 && skip < buf.len, "partial skip");
}

/// write_all_vectored step (2 buffers, empties anywhere): Ok exactly when every byte of every buffer has been
/// written; otherwise re-armed with iovecs == the suffix of the concatenation from skip+n, same buffers, advanced offset.
//@waker_stubs
#[kani::proof]
#[kani::unwind(4)]
fn c10_write_all_vectored_step() {
    let mut ring = FakeSq::<2>::new(0, 0, 0);
    let subs = subs_of(ring.shared(2, false, false));
    let (afd, fdn, kind) = mk_fd(&subs);
    let b0 = any_rb(0);
    let b1 = any_rb(1);
    let total = b0.len as u64 + b1.len as u64;
    kani::assume(total >= 1);
    let skip: u64 = kani::any();
    kani::assume(skip < total);
    let positional: bool = kani::any();
    let offset: u64 = if positional { kani::any() } else { NO_OFFSET };
    kani::assume(!positional || offset <= u64::MAX - 64); // an explicit offset is a real file offset, not the NO_OFFSET marker
    let mut w = afd.write_all_vectored((b0, b1));
    if positional {
        w = w.at(offset);
    }
    w.skip = skip;
    let n: u64 = kani::any();
    kani::assume(n <= total - skip);
    force_done(&w.write.fut.state, n as i32, 0);
    env::fallback_as_identity();
    env::use_poll_contract();
    env::cut_at_repoll();
    let waker = env::waker(4);
    let mut ctx = Context::from_waker(&waker);
    let r = unsafe { Pin::new_unchecked(&mut w) }.poll_inner(&mut ctx);
    if n == 0 {
        assert!(matches!(&r, Poll::Ready(Err(e)) if e.kind() == io::ErrorKind::WriteZero));
    } else if skip + n == total {
        assert!(matches!(&r, Poll::Ready(Ok(_))), "every byte written => Ok");
        assert!(unsafe { env::E.repoll_entries } == 1);
    } else {
        assert!(r.is_pending() && unsafe { env::E.repoll_entries } == 2, "bytes left in SOME buffer => not finished: re-armed and re-polled");
        assert!(status_any(&w.write.fut.state) == St::NotStarted && w.skip == skip + n);
        let s2 = skip + n;
        let res = crate::io_uring::op::verif_op::peek_resources(&w.write.fut.state);
        let iov = &res.1;
        // suffix of the concatenation starting at s2
        let (w0p, w0l) = if s2 < b0.len as u64 { (b0.ptr.addr() as u64 + s2, b0.len as u64 - s2) } else { (0, 0) };
        let in1 = if s2 > b0.len as u64 { s2 - b0.len as u64 } else { 0 };
        assert!(iov[0].len() as u64 == w0l && (w0l == 0 || unsafe { iov[0].ptr() }.addr() as u64 == w0p), "first iovec == unwritten tail of the first buffer");
        assert!(iov[1].len() as u64 == b1.len as u64 - in1 && (iov[1].len() == 0 || unsafe { iov[1].ptr() }.addr() as u64 == b1.ptr.addr() as u64 + in1), "second iovec == unwritten tail of the second buffer");
        assert!(*w.write.fut.state.args() == if positional { offset + n } else { NO_OFFSET });
    }
    std::mem::forget(r);
    std::mem::forget(w);
    assert!(!(n > 0 && skip + n < total && b1.len == 0), "CANARY: unfinished with an EMPTY LAST buffer reachable");
    assert!(!(n > 0 && skip + n < total && b1.len > 0 && skip + n > b0.len as u64), "CANARY: continuation inside the second buffer reachable");
    assert!(!(skip + n == total && n > 0), "CANARY: finished reachable");
    assert!(n != 0, "CANARY: write zero reachable");
}

/// read_n step: last transfer 0 => UnexpectedEof; last >= left => Ok(buffer); otherwise re-armed with the same buffer
/// (now holding the bytes read so far), left' = left - last, offset' = offset + last.
//@waker_stubs
#[kani::proof]
#[kani::unwind(3)]
fn c10_read_n_step() {
    let mut ring = FakeSq::<2>::new(0, 0, 0);
    let subs = subs_of(ring.shared(2, false, false));
    let (afd, fdn, kind) = mk_fd(&subs);
    let buf = any_rb(0);
    kani::assume(buf.cap > buf.len);
    let left: usize = kani::any();
    kani::assume(left >= 1);
    let positional: bool = kani::any();
    let offset: u64 = if positional { kani::any() } else { NO_OFFSET };
    kani::assume(!positional || offset <= u64::MAX - 64); // an explicit offset is a real file offset, not the NO_OFFSET marker
    let mut rd = afd.read_n(buf, left);
    if positional {
        rd = rd.from(offset);
    }
    let n: u32 = kani::any();
    kani::assume(n <= buf.cap - buf.len);
    force_done(&rd.read.state, n as i32, 0);
    env::fallback_as_identity();
    env::use_poll_contract();
    env::cut_at_repoll();
    let waker = env::waker(4);
    let mut ctx = Context::from_waker(&waker);
    let r = unsafe { Pin::new_unchecked(&mut rd) }.poll(&mut ctx);
    if n == 0 {
        assert!(matches!(&r, Poll::Ready(Err(e)) if e.kind() == io::ErrorKind::UnexpectedEof), "stream ended first => UnexpectedEof");
    } else if n as usize >= left {
        assert!(matches!(&r, Poll::Ready(Ok(b)) if b.ptr == buf.ptr && b.len == buf.len + n), "at least n bytes appended => Ok(buffer)");
        assert!(unsafe { env::E.repoll_entries } == 1);
    } else {
        assert!(r.is_pending() && unsafe { env::E.repoll_entries } == 2);
        assert!(status_any(&rd.read.state) == St::NotStarted && rd.left == left - n as usize, "still missing left - last bytes");
        let nb = crate::io_uring::op::verif_op::peek_resources(&rd.read.state);
        assert!(nb.buf.ptr == buf.ptr && nb.buf.len == buf.len + n && nb.buf.cap == buf.cap, "same buffer, bytes read so far kept in arrival order; the next read uses the remaining capacity only");
        assert!(*rd.read.state.args() == if positional { offset + n as u64 } else { NO_OFFSET } && rd.offset == *rd.read.state.args());
    }
    std::mem::forget(r);
    std::mem::forget(rd);
    assert!(!(n > 0 && (n as usize) < left && positional), "CANARY: positional continuation reachable");
    assert!(!(n as usize >= left), "CANARY: finished reachable");
    assert!(n != 0, "CANARY: eof reachable");
}

/// read_n_vectored step (2 buffers): eof / done iff last >= left / otherwise re-armed with the same buffers (bytes read
/// so far kept, front to back), iovecs recomputed over the remaining capacity, left - last, offset + last.
//@waker_stubs
#[kani::proof]
#[kani::unwind(4)]
fn c10_read_n_vectored_step() {
    let mut ring = FakeSq::<2>::new(0, 0, 0);
    let subs = subs_of(ring.shared(2, false, false));
    let (afd, fdn, kind) = mk_fd(&subs);
    let b0 = any_rb(0);
    let b1 = any_rb(1);
    let spare0 = b0.cap - b0.len;
    let spare1 = b1.cap - b1.len;
    kani::assume(spare0 + spare1 >= 1);
    let left: usize = kani::any();
    kani::assume(left >= 1);
    let positional: bool = kani::any();
    let offset: u64 = if positional { kani::any() } else { NO_OFFSET };
    kani::assume(!positional || offset <= u64::MAX - 64);
    let mut rd = afd.read_n_vectored((b0, b1), left);
    if positional {
        rd = rd.from(offset);
    }
    let n: u32 = kani::any();
    kani::assume(n <= spare0 + spare1);
    force_done(&rd.read.state, n as i32, 0);
    env::fallback_as_identity();
    env::use_poll_contract();
    env::cut_at_repoll();
    let waker = env::waker(4);
    let mut ctx = Context::from_waker(&waker);
    let r = unsafe { Pin::new_unchecked(&mut rd) }.poll(&mut ctx);
    let first = if n < spare0 { n } else { spare0 };
    if n == 0 {
        assert!(matches!(&r, Poll::Ready(Err(e)) if e.kind() == io::ErrorKind::UnexpectedEof));
    } else if n as usize >= left {
        assert!(matches!(&r, Poll::Ready(Ok(b)) if b.0.len == b0.len + first && b.1.len == b1.len + (n - first) && b.0.ptr == b0.ptr && b.1.ptr == b1.ptr), "done: the caller's buffers with the bytes appended front to back");
    } else {
        assert!(r.is_pending() && unsafe { env::E.repoll_entries } == 2);
        assert!(status_any(&rd.read.state) == St::NotStarted && rd.left == left - n as usize);
        let res = crate::io_uring::op::verif_op::peek_resources(&rd.read.state);
        assert!(res.0.buf.0.len == b0.len + first && res.0.buf.1.len == b1.len + (n - first), "bytes read so far kept, front to back");
        let iov = &res.1;
        assert!(iov[0].len() as u32 == spare0 - first && iov[1].len() as u32 == spare1 - (n - first), "next read targets the remaining capacity only");
        assert!(iov[0].len() == 0 || unsafe { iov[0].ptr() }.addr() == b0.ptr.addr() + (b0.len + first) as usize);
        assert!(iov[1].len() == 0 || unsafe { iov[1].ptr() }.addr() == b1.ptr.addr() + (b1.len + n - first) as usize);
        assert!(*rd.read.state.args() == if positional { offset + n as u64 } else { NO_OFFSET });
    }
    std::mem::forget(r);
    std::mem::forget(rd);
    assert!(!(n > 0 && (n as usize) < left && n > spare0), "CANARY: continuation inside the second buffer reachable");
    assert!(!(n as usize >= left), "CANARY: finished reachable");
    assert!(n != 0, "CANARY: eof reachable");
}
