//! Harnesses for `src/io/mod.rs` (child module of `crate::io`): AsyncFd::close, standard streams (C07),
//! composite I/O step contracts (C10).
#![allow(dead_code, unused, static_mut_refs)]

use super::*;
use crate::fd::Kind;
use crate::io_uring::sq::verif_sq::{W, any_sqe, sqe_bytes, subs_of, zero_sqe};
use crate::io_uring::verif_uring::{self as vu, FakeSq, abi, ring_inv};
use crate::verif_env as env;
use crate::verif_lib::sq_from;
use std::sync::atomic::Ordering;

/// Re-export of the instrumented buffer (io::traits is a private module).
pub(crate) use super::traits::verif_traits::{TB, any_tb};

// =========================================================================================
// C07  c07.close.consumes — AsyncFd::close consumes the AsyncFd without running its Drop: it issues no request
//      and no close itself, and the Close operation carries exactly the descriptor and kind.
// =========================================================================================
#[kani::proof]
#[kani::unwind(3)]
fn c07_close_consumes() {
    let mut ring = FakeSq::<2>::new(0, 0, 0);
    let subs = subs_of(ring.shared(2, false, false));
    let fd: i32 = kani::any();
    kani::assume(fd >= 0);
    let kind = if kani::any() { Kind::File } else { Kind::Direct };
    let a = unsafe { AsyncFd::from_raw(fd, kind, sq_from((*subs).clone())) };
    let c = a.close();
    assert!(ring.tail.load(Ordering::SeqCst) == 0, "close() queues nothing before it is polled");
    assert!(unsafe { env::E.close_n } == 0 && unsafe { env::E.reg_n } == 0 && unsafe { env::E.enter_n } == 0, "and closes nothing itself (no Drop of the consumed AsyncFd)");
    let (afd, akind) = *c.state.args();
    assert!(afd == fd && akind == kind, "the Close operation targets exactly this descriptor, as its kind");
    std::mem::forget(c);
    kani::cover!(matches!(kind, Kind::Direct), "direct");
    kani::cover!(matches!(kind, Kind::File), "regular");
}

// =========================================================================================
// C07  c07.stdio — dropping Stdin/Stdout/Stderr never closes the standard stream
// =========================================================================================
#[kani::proof]
#[kani::unwind(3)]
fn c07_stdio() {
    let h: u32 = kani::any();
    let t: u32 = kani::any();
    kani::assume(ring_inv(h, t, 2));
    let mut ring = FakeSq::<2>::new(h, t, 0);
    let subs = subs_of(ring.shared(2, false, false));
    let which: u8 = kani::any();
    kani::assume(which < 3);
    match which {
        0 => {
            let s = stdin(sq_from((*subs).clone()));
            assert!(s.fd() == 0 && s.kind() == Kind::File);
            drop(s);
        }
        1 => {
            let s = stdout(sq_from((*subs).clone()));
            assert!(s.fd() == 1 && s.kind() == Kind::File);
            drop(s);
        }
        _ => {
            let s = stderr(sq_from((*subs).clone()));
            assert!(s.fd() == 2 && s.kind() == Kind::File);
            drop(s);
        }
    }
    assert!(ring.tail.load(Ordering::SeqCst) == t, "no CLOSE request");
    assert!(unsafe { env::E.close_n } == 0 && unsafe { env::E.reg_n } == 0, "no close(2)");
    kani::cover!(which == 0, "stdin");
    kani::cover!(which == 2, "stderr");
    kani::cover!(t.wrapping_sub(h) == 2, "even with a full queue");
}

// =========================================================================================
// C10  step contracts of the all-or-error composite operations, from an ARBITRARY intermediate state
//   (skip, offset, remaining) with the inner operation's final completion forced to Done(n).
//   Buffers live in a real 64-byte backing store (the continuation does pointer arithmetic), lengths <= 16: bounded.
// =========================================================================================
use crate::io_uring::op::verif_op::{St, force_done, status_any, user_data_of};
use crate::io_uring::net::verif_net::{any_kind, fixed};
use std::future::Future;
use std::pin::Pin;
use std::task::{Context, Poll};

static mut BACKING: [u8; 64] = [0xA5; 64];
pub(crate) const MAXLEN: u32 = 16;

/// Real-memory buffer: `len` initialised bytes at `ptr`, capacity `cap`.
#[derive(Copy, Clone)]
pub(crate) struct RB {
    pub ptr: *mut u8,
    pub cap: u32,
    pub len: u32,
}
unsafe impl Buf for RB {
    unsafe fn parts(&self) -> (*const u8, u32) {
        (self.ptr.cast_const(), self.len)
    }
}
unsafe impl BufMut for RB {
    unsafe fn parts_mut(&mut self) -> (*mut u8, u32) {
        (unsafe { self.ptr.add(self.len as usize) }, self.cap - self.len)
    }
    unsafe fn set_init(&mut self, n: usize) {
        assert!(n <= (self.cap - self.len) as usize);
        self.len += n as u32;
    }
    fn spare_capacity(&self) -> u32 {
        self.cap - self.len
    }
}
/// Buffer number `slot` (0..3) of the backing store with symbolic length / capacity <= MAXLEN.
pub(crate) fn any_rb(slot: usize) -> RB {
    let cap: u32 = kani::any();
    let len: u32 = kani::any();
    kani::assume(cap <= MAXLEN && len <= cap);
    RB { ptr: unsafe { std::ptr::addr_of_mut!(BACKING).cast::<u8>().add(slot * MAXLEN as usize) }, cap, len }
}
pub(crate) fn mk_fd(subs: &crate::io_uring::sq::Submissions) -> (std::mem::ManuallyDrop<AsyncFd>, i32, Kind) {
    let n: i32 = kani::any();
    kani::assume(n >= 0);
    let kind = any_kind();
    (std::mem::ManuallyDrop::new(unsafe { AsyncFd::from_raw(n, kind, sq_from(subs.clone())) }), n, kind)
}

/// write_all: n == 0 => WriteZero; otherwise the next request covers exactly bytes [skip+n, len) at offset+n
/// (or the current position), on the same descriptor; Ok exactly when skip+n == len, returning the original buffer.
//@waker_stubs
#[kani::proof]
#[kani::unwind(3)]
fn c10_write_all_step() {
    let mut ring = FakeSq::<2>::new(0, 0, 0);
    let subs = subs_of(ring.shared(2, false, false));
    let (afd, fdn, kind) = mk_fd(&subs);
    let buf = any_rb(0);
    kani::assume(buf.len >= 1);
    let skip: u32 = kani::any();
    kani::assume(skip < buf.len);
    let positional: bool = kani::any();
    let offset: u64 = if positional { kani::any() } else { NO_OFFSET };
    kani::assume(offset == NO_OFFSET || offset <= u64::MAX - 64);
    let mut w = afd.write_all(buf);
    if positional {
        w = w.at(offset);
    }
    w.write.fut.state.resources_mut().unwrap().skip = skip;
    // the kernel reports n bytes written out of the len - skip that were requested
    let n: u32 = kani::any();
    kani::assume(n <= buf.len - skip);
    force_done(&w.write.fut.state, n as i32, 0);
    env::fallback_as_identity();
    env::use_poll_contract();
    let waker = env::waker(4);
    let mut ctx = Context::from_waker(&waker);
    let r = unsafe { Pin::new_unchecked(&mut w) }.poll_inner(&mut ctx);
    let t = ring.tail.load(Ordering::SeqCst);
    if n == 0 {
        assert!(matches!(&r, Poll::Ready(Err(e)) if e.kind() == io::ErrorKind::WriteZero), "nothing accepted => WriteZero");
        assert!(t == 0);
    } else if skip + n == buf.len {
        assert!(matches!(&r, Poll::Ready(Ok(b)) if b.ptr == buf.ptr && b.len == buf.len && b.cap == buf.cap), "everything written => Ok with the caller's original buffer");
        assert!(t == 0, "no further request");
    } else {
        assert!(r.is_pending(), "bytes left => continue");
        assert!(t == 1, "exactly one continuation request");
        let e = abi::Sqe {
            opcode: abi::OP_WRITE,
            fd: fdn,
            flags: fixed(kind),
            off: if positional { offset + n as u64 } else { NO_OFFSET },
            addr: buf.ptr.addr() as u64 + (skip + n) as u64,
            len: buf.len - skip - n,
            user_data: user_data_of(&w.write.fut.state),
            ..abi::ZERO
        };
        assert!(sqe_bytes(&ring.sqes[0]) == abi::words(&e), "continuation covers exactly the unwritten bytes, at the advanced offset, same descriptor");
        assert!(status_any(&w.write.fut.state) == St::Running);
    }
    std::mem::forget(r);
    std::mem::forget(w);
    // reachability witnesses (CBMC reports ERROR for cover goals on a formula of this size): each MUST fail
    assert!(!(n > 0 && skip + n < buf.len && positional), "CANARY: positional continuation reachable");
    assert!(!(n > 0 && skip + n < buf.len && !positional && skip > 0), "CANARY: second continuation at the current position reachable");
    assert!(!(skip + n == buf.len && skip > 0), "CANARY: finished after a partial write reachable");
    assert!(n != 0, "CANARY: write zero reachable");
}
