//! Harnesses for `src/io/mod.rs` (child module of `crate::io`): AsyncFd::close, standard streams (C07),
//! composite I/O step contracts (C10).
#![allow(dead_code, unused, static_mut_refs)]

use super::*;
use crate::fd::Kind;
use crate::io_uring::sq::verif_sq::{W, any_sqe, sqe_bytes, subs_of, zero_sqe};
use crate::io_uring::verif_uring::{self as vu, FakeSq, ring_inv};
use crate::verif_env as env;
use crate::verif_lib::sq_from;
use std::sync::atomic::Ordering;

/// Re-export of the instrumented buffer (io::traits is a private module).
pub(crate) use super::traits::verif_traits::{TB, any_tb};

// =========================================================================================
// C07  c07.close.consumes — AsyncFd::close consumes the AsyncFd without running its Drop: it issues no request
//      and no close itself, and the Close operation carries exactly the descriptor and kind.
// =========================================================================================
#[kani::proof]
#[kani::unwind(3)]
fn c07_close_consumes() {
    let mut ring = FakeSq::<2>::new(0, 0, 0);
    let subs = subs_of(ring.shared(2, false, false));
    let fd: i32 = kani::any();
    kani::assume(fd >= 0);
    let kind = if kani::any() { Kind::File } else { Kind::Direct };
    let a = unsafe { AsyncFd::from_raw(fd, kind, sq_from((*subs).clone())) };
    let c = a.close();
    assert!(ring.tail.load(Ordering::SeqCst) == 0, "close() queues nothing before it is polled");
    assert!(unsafe { env::E.close_n } == 0 && unsafe { env::E.reg_n } == 0 && unsafe { env::E.enter_n } == 0, "and closes nothing itself (no Drop of the consumed AsyncFd)");
    let (afd, akind) = *c.state.args();
    assert!(afd == fd && akind == kind, "the Close operation targets exactly this descriptor, as its kind");
    std::mem::forget(c);
    kani::cover!(matches!(kind, Kind::Direct), "direct");
    kani::cover!(matches!(kind, Kind::File), "regular");
}

// =========================================================================================
// C07  c07.stdio — dropping Stdin/Stdout/Stderr never closes the standard stream
// =========================================================================================
#[kani::proof]
#[kani::unwind(3)]
fn c07_stdio() {
    let h: u32 = kani::any();
    let t: u32 = kani::any();
    kani::assume(ring_inv(h, t, 2));
    let mut ring = FakeSq::<2>::new(h, t, 0);
    let subs = subs_of(ring.shared(2, false, false));
    let which: u8 = kani::any();
    kani::assume(which < 3);
    match which {
        0 => {
            let s = stdin(sq_from((*subs).clone()));
            assert!(s.fd() == 0 && s.kind() == Kind::File);
            drop(s);
        }
        1 => {
            let s = stdout(sq_from((*subs).clone()));
            assert!(s.fd() == 1 && s.kind() == Kind::File);
            drop(s);
        }
        _ => {
            let s = stderr(sq_from((*subs).clone()));
            assert!(s.fd() == 2 && s.kind() == Kind::File);
            drop(s);
        }
    }
    assert!(ring.tail.load(Ordering::SeqCst) == t, "no CLOSE request");
    assert!(unsafe { env::E.close_n } == 0 && unsafe { env::E.reg_n } == 0, "no close(2)");
    kani::cover!(which == 0, "stdin");
    kani::cover!(which == 2, "stderr");
    kani::cover!(t.wrapping_sub(h) == 2, "even with a full queue");
}
