//! Harnesses for items private to `src/lib.rs` (child module of the crate root).
#![allow(dead_code, unused, static_mut_refs)]

use super::*;
use crate::verif_env as env;
use std::sync::atomic::{AtomicU8, Ordering};

pub(crate) fn polling_state_raw(p: &PollingState) -> u8 {
    p.0.load(Ordering::SeqCst)
}
pub(crate) fn polling_state_with(v: u8) -> PollingState {
    PollingState(AtomicU8::new(v))
}

pub(crate) fn sq_from(subs: sys::Submissions) -> SubmissionQueue {
    SubmissionQueue(subs)
}

// =========================================================================================
// C11  c11.polling_state — the two-flag handshake word: set_polling is exactly `swap`, wake is exactly
//      `fetch_or(AWOKEN)`, with the stated return predicates, from every reachable state.
// =========================================================================================
#[kani::proof]
#[kani::unwind(3)]
fn c11_polling_state() {
    let s0: u8 = kani::any();
    kani::assume(s0 <= 3);
    let p = polling_state_with(s0);
    if kani::any() {
        let b: bool = kani::any();
        let r = p.set_polling(b);
        assert!(r == (s0 & IS_AWOKEN != 0), "set_polling reports a wake-up that arrived since the last call");
        assert!(polling_state_raw(&p) == b as u8, "set_polling(b) leaves exactly (polling = b, awoken = false)");
    } else {
        let r = p.wake();
        assert!(r == (s0 == IS_POLLING), "wake asks for a ring message exactly when a poll is in progress and nobody woke it yet");
        assert!(polling_state_raw(&p) == s0 | IS_AWOKEN, "wake sets awoken and keeps polling");
    }
    kani::cover!(s0 == 3, "polling and awoken");
    kani::cover!(s0 == 0, "idle");
}
