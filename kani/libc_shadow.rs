// ---- appended by /verif (cfg(kani) only): explicit items shadow the `pub use libc::*` glob, so the
// ---- foreign functions a10 calls directly are replaced by the ledger models in crate::verif_env.
#[cfg(kani)]
pub unsafe fn mmap(addr: *mut c_void, len: size_t, prot: c_int, flags: c_int, fd: c_int, offset: off_t) -> *mut c_void {
    unsafe { crate::verif_env::mmap(addr, len, prot, flags, fd, offset) }
}
#[cfg(kani)]
pub unsafe fn munmap(addr: *mut c_void, len: size_t) -> c_int {
    unsafe { crate::verif_env::munmap(addr, len) }
}
#[cfg(kani)]
pub unsafe fn madvise(addr: *mut c_void, len: size_t, advice: c_int) -> c_int {
    unsafe { crate::verif_env::madvise(addr, len, advice) }
}
#[cfg(kani)]
pub unsafe fn close(fd: c_int) -> c_int {
    unsafe { crate::verif_env::close(fd) }
}
#[cfg(kani)]
pub unsafe fn sysconf(name: c_int) -> c_long {
    // _SC_PAGESIZE is the only name a10 asks for
    4096
}
