//! Stand-in for the `log` crate used ONLY in the scratch copy that Kani compiles (see /verif/DESIGN.md 2.3).
//! a10 uses `log::trace!`, `log::debug!` and `log::warn!` only.  With no logger installed the real macros
//! evaluate `lvl <= max_level()` (Off) and nothing else — no argument is evaluated, nothing is written — so
//! expanding to nothing is behaviourally identical, and it keeps the record/format/`dyn Debug` machinery (which
//! CBMC otherwise explores whenever it cannot constant-fold the level static) out of every obligation's cone.
#[macro_export]
macro_rules! trace { ($($t:tt)*) => {{}}; }
#[macro_export]
macro_rules! debug { ($($t:tt)*) => {{}}; }
#[macro_export]
macro_rules! info { ($($t:tt)*) => {{}}; }
#[macro_export]
macro_rules! warn { ($($t:tt)*) => {{}}; }
#[macro_export]
macro_rules! error { ($($t:tt)*) => {{}}; }
