//! Harnesses for `src/net.rs` (child module of `crate::net`): socket address conversions (C16) and the
//! composite send/recv step contracts (C10).
#![allow(dead_code, unused, static_mut_refs)]

use super::*;
use super::SocketAddress as SA;
use std::mem::{MaybeUninit, size_of};

// =========================================================================================
// C16  c16.v4 / c16.v6 / c16.either — every IP socket address round-trips through its kernel representation,
//      and the pointer/length pair covers exactly the family's struct.  Loop-free, full domain.
// =========================================================================================
#[kani::proof]
#[kani::unwind(20)] // memcmp over 16 address bytes; no function pointers in this cone
fn c16_v4() {
    let ip: u32 = kani::any();
    let port: u16 = kani::any();
    let a = SocketAddrV4::new(Ipv4Addr::from(ip), port);
    let storage = a.into_storage();
    let (p, len) = unsafe { <SocketAddrV4 as SA>::as_ptr(&storage) };
    assert!(p.addr() == std::ptr::from_ref(&storage).addr() && len as usize == size_of::<libc::sockaddr_in>(), "pointer/length cover exactly sockaddr_in");
    assert!(storage.sin_family == libc::AF_INET as libc::sa_family_t);
    let mut mu = MaybeUninit::new(storage);
    let (mp, mlen) = unsafe { <SocketAddrV4 as SA>::as_mut_ptr(&mut mu) };
    assert!(mp.addr() == mu.as_ptr().addr() && mlen as usize == size_of::<libc::sockaddr_in>());
    // the kernel reports sizeof(sockaddr_in) for AF_INET addresses
    let b = unsafe { <SocketAddrV4 as SA>::init(mu, size_of::<libc::sockaddr_in>() as u32) };
    assert!(b == a, "IPv4 address round-trips");
    kani::cover!(port == 0xff00, "byte order matters");
}

#[kani::proof]
#[kani::unwind(20)] // memcmp over 16 address bytes; no function pointers in this cone
fn c16_v6() {
    let ip: u128 = kani::any();
    let port: u16 = kani::any();
    let flow: u32 = kani::any();
    let scope: u32 = kani::any();
    let a = SocketAddrV6::new(Ipv6Addr::from(ip), port, flow, scope);
    let storage = a.into_storage();
    let (p, len) = unsafe { <SocketAddrV6 as SA>::as_ptr(&storage) };
    assert!(p.addr() == std::ptr::from_ref(&storage).addr() && len as usize == size_of::<libc::sockaddr_in6>());
    assert!(storage.sin6_family == libc::AF_INET6 as libc::sa_family_t);
    let mut mu = MaybeUninit::new(storage);
    let (mp, mlen) = unsafe { <SocketAddrV6 as SA>::as_mut_ptr(&mut mu) };
    assert!(mp.addr() == mu.as_ptr().addr() && mlen as usize == size_of::<libc::sockaddr_in6>());
    let b = unsafe { <SocketAddrV6 as SA>::init(mu, size_of::<libc::sockaddr_in6>() as u32) };
    assert!(b == a, "IPv6 address (port, flow label, scope id) round-trips");
    kani::cover!(flow != 0 && scope != 0, "flow and scope set");
}

#[kani::proof]
#[kani::unwind(20)] // memcmp over 16 address bytes; no function pointers in this cone
fn c16_either() {
    let v4: bool = kani::any();
    let a: SocketAddr = if v4 {
        SocketAddr::V4(SocketAddrV4::new(Ipv4Addr::from(kani::any::<u32>()), kani::any()))
    } else {
        SocketAddr::V6(SocketAddrV6::new(Ipv6Addr::from(kani::any::<u128>()), kani::any(), kani::any(), kani::any()))
    };
    let storage = a.into_storage();
    let (p, len) = unsafe { <SocketAddr as SA>::as_ptr(&storage) };
    let want = if v4 { size_of::<libc::sockaddr_in>() } else { size_of::<libc::sockaddr_in6>() };
    assert!(p.addr() == std::ptr::from_ref(&storage).addr() && len as usize == want, "length is that of the address' own family");
    let mut mu = MaybeUninit::new(storage);
    let (_, mlen) = unsafe { <SocketAddr as SA>::as_mut_ptr(&mut mu) };
    assert!(mlen as usize == size_of::<libc::sockaddr_in6>(), "receive buffer fits both families");
    // the kernel reports the family's own size
    let b = unsafe { <SocketAddr as SA>::init(mu, want as u32) };
    assert!(b == a, "either-family address round-trips");
    kani::cover!(v4, "v4 through the v6-sized storage");
    kani::cover!(!v4, "v6");
}

// =========================================================================================
// C16  c16.unix.* — Unix-domain addresses, with the length Linux itself reports:
//   pathname: offsetof(sun_path) + strlen + 1 (trailing NUL included);  abstract: offsetof + 1 + n;  unnamed: 2.
//   Name length is bounded by UNIX_MAX (stated bound; real maximum is 107/108).
// =========================================================================================
const UNIX_MAX: usize = 4;
const SUN_PATH_OFFSET: usize = 2;

fn any_name(n: usize) -> [u8; UNIX_MAX] {
    let b: [u8; UNIX_MAX] = [kani::any(), kani::any(), kani::any(), kani::any()];
    b
}

/// Byte-wise comparison (Path's own == walks path components, which is needlessly expensive for CBMC).
fn same_path(a: &unix::net::SocketAddr, b: &[u8; UNIX_MAX], n: usize) -> bool {
    match a.as_pathname() {
        None => false,
        Some(p) => {
            let got = p.as_os_str().as_bytes();
            got.len() == n && (n < 1 || got[0] == b[0]) && (n < 2 || got[1] == b[1]) && (n < 3 || got[2] == b[2]) && (n < 4 || got[3] == b[3])
        }
    }
}

type US = <unix::net::SocketAddr as SA>::Storage;

/// What the kernel reads: the sockaddr_un behind the pointer a10 passes, and the length a10 passes with it.
fn sent(storage: &US) -> (&libc::sockaddr_un, usize) {
    let (p, len) = unsafe { <unix::net::SocketAddr as SA>::as_ptr(storage) };
    let lo = std::ptr::from_ref(storage).addr();
    assert!(p.addr() >= lo && p.addr() + len as usize <= lo + size_of::<US>(), "pointer/length pair lies inside the address storage");
    assert!(len as usize <= size_of::<libc::sockaddr_un>(), "never more than the family's structure");
    (unsafe { &*p.cast::<libc::sockaddr_un>() }, len as usize)
}

#[kani::proof]
#[kani::unwind(8)]
fn c16_unix_path() {
    let n: usize = kani::any();
    kani::assume(n >= 1 && n <= UNIX_MAX);
    let b = any_name(n);
    kani::assume(b[0] != 0 && (n < 2 || b[1] != 0) && (n < 3 || b[2] != 0) && (n < 4 || b[3] != 0));
    let a = unix::net::SocketAddr::from_pathname(Path::new(OsStr::from_bytes(&b[..n]))).unwrap();
    let storage = a.clone().into_storage();
    // what getsockname/accept/recvmsg report for a pathname socket
    let kernel_len = (SUN_PATH_OFFSET + n + 1) as u32;
    let back = unsafe { <unix::net::SocketAddr as SA>::init(MaybeUninit::new(storage), kernel_len) };
    assert!(same_path(&back, &b, n), "Unix path name round-trips with the kernel's length (trailing NUL included)");
    // and with the length excluding the NUL (what some interfaces report)
    let back2 = unsafe { <unix::net::SocketAddr as SA>::init(MaybeUninit::new(a.clone().into_storage()), kernel_len - 1) };
    assert!(same_path(&back2, &b, n), "and without the trailing NUL");
    kani::cover!(n == UNIX_MAX, "longest bounded name");
    kani::cover!(n == 1, "one byte name");
}

#[kani::proof]
#[kani::unwind(8)]
fn c16_unix_abstract() {
    let n: usize = kani::any();
    kani::assume(n <= UNIX_MAX);
    let b = any_name(n); // abstract names may contain any byte, NUL included
    let a = <unix::net::SocketAddr as SocketAddrExt>::from_abstract_name(&b[..n]).unwrap();
    let storage = a.clone().into_storage();
    let kernel_len = (SUN_PATH_OFFSET + 1 + n) as u32;
    let back = unsafe { <unix::net::SocketAddr as SA>::init(MaybeUninit::new(storage), kernel_len) };
    assert!(back.as_abstract_name() == a.as_abstract_name() && back.as_abstract_name().is_some(), "abstract name round-trips with the kernel's length");
    kani::cover!(n == 0, "empty abstract name");
    kani::cover!(n == UNIX_MAX && b[1] == 0, "name with an embedded NUL");
}

/// Unnamed: getsockname/getpeername/accept report sizeof(sa_family_t); recvmsg for a datagram from an unbound
/// socket reports length 0 and writes nothing (observed on the real kernel: findings/F14).
#[kani::proof]
#[kani::unwind(8)]
fn c16_unix_unnamed() {
    let a = unix::net::SocketAddr::from_pathname("").unwrap();
    assert!(a.is_unnamed());
    let storage = a.clone().into_storage();
    let (un, len) = sent(&storage);
    assert!(un.sun_family == libc::AF_UNIX as libc::sa_family_t);
    assert!(len == SUN_PATH_OFFSET, "length passed to the kernel for an unnamed address is sizeof(sa_family_t)");
    let back = unsafe { <unix::net::SocketAddr as SA>::init(MaybeUninit::new(storage), SUN_PATH_OFFSET as u32) };
    assert!(back.is_unnamed(), "unnamed address round-trips");
    kani::cover!(true, "end");
}

#[kani::proof]
#[kani::unwind(8)]
fn c16_unix_unnamed_len0() {
    // nothing written by the kernel: the receive storage is whatever it was
    let mut mu = MaybeUninit::<US>::uninit();
    let (mp, cap) = unsafe { <unix::net::SocketAddr as SA>::as_mut_ptr(&mut mu) };
    let lo = mu.as_ptr().addr();
    assert!(mp.addr() >= lo && mp.addr() + cap as usize <= lo + size_of::<US>() && cap as usize == size_of::<libc::sockaddr_un>(), "receive capacity: a whole sockaddr_un inside the storage");
    let back = unsafe { <unix::net::SocketAddr as SA>::init(mu, 0) };
    assert!(back.is_unnamed(), "kernel-reported length 0 (datagram from an unbound socket) is the unnamed address");
    kani::cover!(true, "end");
}

/// The pointer/length pair passed to the kernel covers exactly the address: for an abstract name of n bytes that is
/// offsetof(sun_path) + 1 + n (abstract names are length-delimited: extra bytes become part of the name).
#[kani::proof]
#[kani::unwind(8)]
fn c16_unix_abstract_len() {
    let n: usize = kani::any();
    kani::assume(n <= UNIX_MAX);
    let b = any_name(n);
    let a = <unix::net::SocketAddr as SocketAddrExt>::from_abstract_name(&b[..n]).unwrap();
    let storage = a.into_storage();
    let (un, len) = sent(&storage);
    assert!(len == SUN_PATH_OFFSET + 1 + n, "length passed to the kernel for an abstract name is offsetof(sun_path) + 1 + n");
    assert!(un.sun_family == libc::AF_UNIX as libc::sa_family_t && un.sun_path[0] == 0);
    assert!((n < 1 || un.sun_path[1] as u8 == b[0]) && (n < 2 || un.sun_path[2] as u8 == b[1]) && (n < 3 || un.sun_path[3] as u8 == b[2]) && (n < 4 || un.sun_path[4] as u8 == b[3]), "the name bytes, after the leading NUL");
    kani::cover!(n == UNIX_MAX, "longest bounded name");
}

/// Pathname: any length from offsetof + strlen + 1 up to sizeof(sockaddr_un) names the same path (the kernel stops at
/// the first NUL); the storage is zero-filled behind the name.
#[kani::proof]
#[kani::unwind(8)]
fn c16_unix_path_len() {
    let n: usize = kani::any();
    kani::assume(n >= 1 && n <= UNIX_MAX);
    let b = any_name(n);
    kani::assume(b[0] != 0 && (n < 2 || b[1] != 0) && (n < 3 || b[2] != 0) && (n < 4 || b[3] != 0));
    let a = unix::net::SocketAddr::from_pathname(Path::new(OsStr::from_bytes(&b[..n]))).unwrap();
    let storage = a.into_storage();
    let (un, len) = sent(&storage);
    assert!(len >= SUN_PATH_OFFSET + n + 1, "covers the name and its terminator, inside the structure");
    assert!(un.sun_path[0] as u8 == b[0] && un.sun_path[n - 1] as u8 == b[n - 1] && un.sun_path[n] == 0, "the name, NUL-terminated inside the covered bytes");
    kani::cover!(n == UNIX_MAX, "longest bounded name");
}

// =========================================================================================
// C10  step contracts of send_all / send_all_vectored / recv_n / recv_n_vectored (see kani/io_mod.rs for the method)
// =========================================================================================
use crate::io::verif_io::{RB, any_rb, mk_fd};
use crate::io_uring::op::verif_op::{St, force_done, peek_resources, status_any};
use crate::io_uring::sq::verif_sq::subs_of;
use crate::io_uring::verif_uring::FakeSq;
use crate::verif_env as env;
use std::task::Context;

fn same_call(a: SendCall, zc: bool) -> bool {
    matches!(a, SendCall::ZeroCopy) == zc
}

/// send_all step: n == 0 => WriteZero; everything sent => Ok(original buffer); otherwise re-armed with the same
/// buffer, skip' = skip+n, and the SAME flags and zero-copy mode the caller chose.
//@waker_stubs
#[kani::proof]
#[kani::unwind(3)]
fn c10_send_all_step() {
    let mut ring = FakeSq::<2>::new(0, 0, 0);
    let subs = subs_of(ring.shared(2, false, false));
    let (afd, _fdn, _kind) = mk_fd(&subs);
    let buf = any_rb(0);
    kani::assume(buf.len >= 1);
    let skip: u32 = kani::any();
    kani::assume(skip < buf.len);
    let fl: u32 = kani::any();
    let zc: bool = kani::any();
    let mut w = afd.send_all(buf).flags(SendFlag(fl));
    if zc {
        w = w.zc();
    }
    w.send.fut.state.resources_mut().unwrap().skip = skip;
    let n: u32 = kani::any();
    kani::assume(n <= buf.len - skip);
    force_done(&w.send.fut.state, n as i32, 0);
    env::fallback_as_identity();
    env::use_poll_contract();
    env::cut_at_repoll();
    let waker = env::waker(4);
    let mut ctx = Context::from_waker(&waker);
    let r = unsafe { Pin::new_unchecked(&mut w) }.poll_inner(&mut ctx);
    if n == 0 {
        assert!(matches!(&r, Poll::Ready(Err(e)) if e.kind() == io::ErrorKind::WriteZero), "nothing accepted => WriteZero");
    } else if skip + n == buf.len {
        assert!(matches!(&r, Poll::Ready(Ok(b)) if b.ptr == buf.ptr && b.len == buf.len), "everything sent => Ok with the original buffer");
        assert!(unsafe { env::E.repoll_entries } == 1);
    } else {
        assert!(r.is_pending() && unsafe { env::E.repoll_entries } == 2);
        assert!(status_any(&w.send.fut.state) == St::NotStarted);
        let res = peek_resources(&w.send.fut.state);
        assert!(res.skip == skip + n && res.buf.ptr == buf.ptr && res.buf.len == buf.len, "same buffer, continues after the bytes sent");
        let a = w.send.fut.state.args();
        assert!(a.1.0 == fl && same_call(a.0, zc), "continuation keeps the caller's flags and zero-copy mode");
    }
    std::mem::forget(r);
    std::mem::forget(w);
    assert!(!(n > 0 && skip + n < buf.len && zc && fl != 0), "CANARY: zero-copy continuation with flags reachable");
    assert!(!(skip + n == buf.len && skip > 0), "CANARY: finished after a partial send reachable");
    assert!(n != 0, "CANARY: write zero reachable");
}

/// send_all_vectored step (2 buffers, empties anywhere)
//@waker_stubs
#[kani::proof]
#[kani::unwind(4)]
fn c10_send_all_vectored_step() {
    let mut ring = FakeSq::<2>::new(0, 0, 0);
    let subs = subs_of(ring.shared(2, false, false));
    let (afd, _fdn, _kind) = mk_fd(&subs);
    let b0 = any_rb(0);
    let b1 = any_rb(1);
    let total = b0.len as u64 + b1.len as u64;
    kani::assume(total >= 1);
    let skip: u64 = kani::any();
    kani::assume(skip < total);
    let fl: u32 = kani::any();
    let zc: bool = kani::any();
    let mut w = afd.send_all_vectored((b0, b1)).flags(SendFlag(fl));
    if zc {
        w = w.zc();
    }
    w.skip = skip;
    let n: u64 = kani::any();
    kani::assume(n <= total - skip);
    force_done(&w.send.fut.state, n as i32, 0);
    env::fallback_as_identity();
    env::use_poll_contract();
    env::cut_at_repoll();
    let waker = env::waker(4);
    let mut ctx = Context::from_waker(&waker);
    let r = unsafe { Pin::new_unchecked(&mut w) }.poll_inner(&mut ctx);
    if n == 0 {
        assert!(matches!(&r, Poll::Ready(Err(e)) if e.kind() == io::ErrorKind::WriteZero));
    } else if skip + n == total {
        assert!(matches!(&r, Poll::Ready(Ok(_))), "every byte sent => Ok");
        assert!(unsafe { env::E.repoll_entries } == 1);
    } else {
        assert!(r.is_pending() && unsafe { env::E.repoll_entries } == 2, "bytes left in SOME buffer => not finished: re-armed and re-polled");
        assert!(status_any(&w.send.fut.state) == St::NotStarted && w.skip == skip + n);
        let s2 = skip + n;
        let res = peek_resources(&w.send.fut.state);
        let iov = &res.2;
        let w0l = if s2 < b0.len as u64 { b0.len as u64 - s2 } else { 0 };
        let in1 = if s2 > b0.len as u64 { s2 - b0.len as u64 } else { 0 };
        assert!(iov[0].len() as u64 == w0l && (w0l == 0 || unsafe { iov[0].ptr() }.addr() as u64 == b0.ptr.addr() as u64 + s2), "first iovec == unsent tail of the first buffer");
        assert!(iov[1].len() as u64 == b1.len as u64 - in1 && (iov[1].len() == 0 || unsafe { iov[1].ptr() }.addr() as u64 == b1.ptr.addr() as u64 + in1), "second iovec == unsent tail of the second buffer");
        let a = w.send.fut.state.args();
        assert!(a.1.0 == fl, "continuation keeps the caller's flags");
        assert!(same_call(a.0, zc), "continuation keeps the zero-copy mode");
    }
    std::mem::forget(r);
    std::mem::forget(w);
    assert!(!(n > 0 && skip + n < total && b1.len == 0), "CANARY: unfinished with an EMPTY LAST buffer reachable");
    assert!(!(n > 0 && skip + n < total && fl != 0 && zc), "CANARY: continuation with flags and zero-copy reachable");
    assert!(!(skip + n == total && n > 0), "CANARY: finished reachable");
    assert!(n != 0, "CANARY: write zero reachable");
}

/// recv_n step
//@waker_stubs
#[kani::proof]
#[kani::unwind(3)]
fn c10_recv_n_step() {
    let mut ring = FakeSq::<2>::new(0, 0, 0);
    let subs = subs_of(ring.shared(2, false, false));
    let (afd, _fdn, _kind) = mk_fd(&subs);
    let buf = any_rb(0);
    kani::assume(buf.cap > buf.len);
    let left: usize = kani::any();
    kani::assume(left >= 1);
    let fl: u32 = kani::any();
    let mut rd = afd.recv_n(buf, left).flags(RecvFlag(fl));
    let n: u32 = kani::any();
    kani::assume(n <= buf.cap - buf.len);
    force_done(&rd.recv.state, n as i32, 0);
    env::fallback_as_identity();
    env::use_poll_contract();
    env::cut_at_repoll();
    let waker = env::waker(4);
    let mut ctx = Context::from_waker(&waker);
    let r = unsafe { Pin::new_unchecked(&mut rd) }.poll(&mut ctx);
    if n == 0 {
        assert!(matches!(&r, Poll::Ready(Err(e)) if e.kind() == io::ErrorKind::UnexpectedEof), "stream ended first => UnexpectedEof");
    } else if n as usize >= left {
        assert!(matches!(&r, Poll::Ready(Ok(b)) if b.ptr == buf.ptr && b.len == buf.len + n), "at least n bytes appended => Ok(buffer)");
    } else {
        assert!(r.is_pending() && unsafe { env::E.repoll_entries } == 2);
        assert!(status_any(&rd.recv.state) == St::NotStarted && rd.left == left - n as usize);
        let nb = peek_resources(&rd.recv.state);
        assert!(nb.buf.ptr == buf.ptr && nb.buf.len == buf.len + n && nb.buf.cap == buf.cap, "same buffer with the bytes received so far");
        assert!(rd.recv.state.args().0 == fl, "same flags on the continuation");
    }
    std::mem::forget(r);
    std::mem::forget(rd);
    assert!(!(n > 0 && (n as usize) < left && fl != 0), "CANARY: continuation with flags reachable");
    assert!(!(n as usize >= left), "CANARY: finished reachable");
    assert!(n != 0, "CANARY: eof reachable");
}

/// recv_n_vectored step (2 buffers)
//@waker_stubs
#[kani::proof]
#[kani::unwind(4)]
fn c10_recv_n_vectored_step() {
    let mut ring = FakeSq::<2>::new(0, 0, 0);
    let subs = subs_of(ring.shared(2, false, false));
    let (afd, _fdn, _kind) = mk_fd(&subs);
    let b0 = any_rb(0);
    let b1 = any_rb(1);
    let spare0 = b0.cap - b0.len;
    let spare1 = b1.cap - b1.len;
    kani::assume(spare0 + spare1 >= 1);
    let left: usize = kani::any();
    kani::assume(left >= 1);
    let fl: u32 = kani::any();
    let mut rd = afd.recv_n_vectored((b0, b1), left).flags(RecvFlag(fl));
    let n: u32 = kani::any();
    kani::assume(n <= spare0 + spare1);
    force_done(&rd.recv.state, n as i32, 0);
    env::fallback_as_identity();
    env::use_poll_contract();
    env::cut_at_repoll();
    let waker = env::waker(4);
    let mut ctx = Context::from_waker(&waker);
    let r = unsafe { Pin::new_unchecked(&mut rd) }.poll(&mut ctx);
    let first = if n < spare0 { n } else { spare0 };
    if n == 0 {
        assert!(matches!(&r, Poll::Ready(Err(e)) if e.kind() == io::ErrorKind::UnexpectedEof));
    } else if n as usize >= left {
        assert!(matches!(&r, Poll::Ready(Ok(b)) if b.0.len == b0.len + first && b.1.len == b1.len + (n - first)), "done: bytes appended front to back");
    } else {
        assert!(r.is_pending() && unsafe { env::E.repoll_entries } == 2);
        assert!(status_any(&rd.recv.state) == St::NotStarted && rd.left == left - n as usize);
        let res = peek_resources(&rd.recv.state);
        assert!(res.0.buf.0.len == b0.len + first && res.0.buf.1.len == b1.len + (n - first));
        let iov = &res.2;
        assert!(iov[0].len() as u32 == spare0 - first && iov[1].len() as u32 == spare1 - (n - first), "next receive targets the remaining capacity only");
        assert!(rd.recv.state.args().0 == fl, "same flags on the continuation");
    }
    std::mem::forget(r);
    std::mem::forget(rd);
    assert!(!(n > 0 && (n as usize) < left && fl != 0), "CANARY: continuation with flags reachable");
    assert!(!(n as usize >= left), "CANARY: finished reachable");
    assert!(n != 0, "CANARY: eof reachable");
}
