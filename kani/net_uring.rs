//! Harnesses for `src/io_uring/net.rs` (child module): request encoders / result decoders of the socket
//! operations (C13), descriptor wrapping (C07), address read-back (C16 call sites).
#![allow(dead_code, unused, static_mut_refs)]

use super::*;
use crate::io_uring::sq::verif_sq::{W, any_sqe, sqe_bytes, subs_of, zero_sqe};
use crate::io_uring::verif_uring::{self as vu, FakeSq, ring_inv};
use crate::verif_env as env;
use crate::verif_lib::sq_from;
use std::mem::ManuallyDrop;

pub(crate) fn any_kind() -> fd::Kind {
    if kani::any() { fd::Kind::File } else { fd::Kind::Direct }
}
pub(crate) fn cloexec(kind: fd::Kind) -> u32 {
    match kind {
        fd::Kind::File => libc::O_CLOEXEC as u32,
        fd::Kind::Direct => 0,
    }
}
/// ABI: a request that creates a descriptor asks for a direct one with file_index = IORING_FILE_INDEX_ALLOC.
pub(crate) fn set_create(e: &mut sq::Submission, kind: fd::Kind) {
    if let fd::Kind::Direct = kind {
        e.0.__bindgen_anon_5 = libc::io_uring_sqe__bindgen_ty_5 { file_index: libc::IORING_FILE_INDEX_ALLOC as u32 };
    }
}
/// ABI: a request on a direct descriptor carries IOSQE_FIXED_FILE.
pub(crate) fn fixed(kind: fd::Kind) -> u8 {
    match kind {
        fd::Kind::File => 0,
        fd::Kind::Direct => libc::IOSQE_FIXED_FILE,
    }
}

// =========================================================================================
// C13  c13.enc.socket — socket(2): domain, type|SOCK_CLOEXEC (regular) , protocol; direct => file_index ALLOC
// =========================================================================================
#[kani::proof]
#[kani::unwind(3)]
fn c13_enc_socket() {
    let domain: i32 = kani::any();
    let ty: u32 = kani::any();
    let proto: u32 = kani::any();
    let mut kind = any_kind();
    let mut args = (Domain(domain), Type(ty), Protocol(proto));
    let mut s = zero_sqe();
    <SocketOp as Op>::fill_submission(&mut kind, &mut args, &mut s);
    let mut e = zero_sqe();
    e.0.opcode = libc::IORING_OP_SOCKET as u8;
    e.0.fd = domain;
    e.0.__bindgen_anon_1 = libc::io_uring_sqe__bindgen_ty_1 { off: (ty | cloexec(kind)) as u64 };
    e.0.len = proto;
    set_create(&mut e, kind);
    assert!(sqe_bytes(&s) == sqe_bytes(&e), "SOCKET request == socket(domain, type|CLOEXEC, protocol) [+ direct slot allocation]");
    kani::cover!(matches!(kind, fd::Kind::Direct), "direct");
    kani::cover!(matches!(kind, fd::Kind::File), "regular");
}

// =========================================================================================
// C07  c07.wrap.socket / multishot_accept — the descriptor the kernel returns ends up in exactly one AsyncFd of
//      the requested (socket) / inherited (accept) kind
// =========================================================================================
#[kani::proof]
#[kani::unwind(3)]
fn c07_wrap_socket() {
    let mut ring = FakeSq::<1>::new(0, 0, 0);
    let subs = subs_of(ring.shared(1, false, false));
    let sq = ManuallyDrop::new(sq_from((*subs).clone()));
    let kind = any_kind();
    let fd: u32 = kani::any();
    kani::assume(fd <= i32::MAX as u32);
    let a = <SocketOp as Op>::map_ok(&sq, kind, (crate::io_uring::op::verif_op::cflags(0), fd));
    assert!(a.fd() == fd as i32 && a.kind() == kind);
    std::mem::forget(a);
    assert!(unsafe { env::E.close_n } == 0);
    kani::cover!(matches!(kind, fd::Kind::Direct), "direct");
}

#[kani::proof]
#[kani::unwind(3)]
fn c07_wrap_multishot_accept() {
    let mut ring = FakeSq::<1>::new(0, 0, 0);
    let subs = subs_of(ring.shared(1, false, false));
    let kind = any_kind();
    let lfd_n: i32 = kani::any();
    kani::assume(lfd_n >= 0);
    let lfd = ManuallyDrop::new(unsafe { AsyncFd::from_raw(lfd_n, kind, sq_from((*subs).clone())) });
    let fd: u32 = kani::any();
    kani::assume(fd <= i32::MAX as u32);
    let a = <MultishotAcceptOp as FdIter>::map_next(&lfd, &(), (crate::io_uring::op::verif_op::cflags(0), fd));
    assert!(a.fd() == fd as i32 && a.kind() == kind, "accepted socket has the listener's kind");
    assert!(lfd.fd() == lfd_n && lfd.kind() == kind, "listener untouched");
    std::mem::forget(a);
    kani::cover!(matches!(kind, fd::Kind::Direct), "direct");
}

// =========================================================================================
// C13  c13.enc.multishot_accept — accept4(fd, NULL, NULL, flags|SOCK_CLOEXEC), multishot, always async
// =========================================================================================
#[kani::proof]
#[kani::unwind(3)]
fn c13_enc_multishot_accept() {
    let mut ring = FakeSq::<1>::new(0, 0, 0);
    let subs = subs_of(ring.shared(1, false, false));
    let kind = any_kind();
    let lfd_n: i32 = kani::any();
    kani::assume(lfd_n >= 0);
    let lfd = ManuallyDrop::new(unsafe { AsyncFd::from_raw(lfd_n, kind, sq_from((*subs).clone())) });
    let fl: u32 = kani::any();
    let mut flags = AcceptFlag(fl);
    let mut s = zero_sqe();
    <MultishotAcceptOp as FdIter>::fill_submission(&lfd, &mut (), &mut flags, &mut s);
    let mut e = zero_sqe();
    e.0.opcode = libc::IORING_OP_ACCEPT as u8;
    e.0.ioprio = libc::IORING_ACCEPT_MULTISHOT as u16;
    e.0.fd = lfd_n;
    e.0.__bindgen_anon_3 = libc::io_uring_sqe__bindgen_ty_3 { accept_flags: fl | cloexec(kind) };
    e.0.flags = libc::IOSQE_ASYNC;
    set_create(&mut e, kind);
    assert!(sqe_bytes(&s) == sqe_bytes(&e));
    kani::cover!(matches!(kind, fd::Kind::Direct), "direct");
}

// =========================================================================================
// C07  c07.abandoned.socket — a descriptor the kernel returns for an operation that was abandoned (future dropped
//      while in flight) must be closed.  KNOWN FINDING F9: nothing closes it (see findings/F9).
// =========================================================================================
#[kani::proof]
#[kani::unwind(3)]
fn c07_abandoned_socket() {
    let h: u32 = kani::any();
    let t: u32 = kani::any();
    kani::assume(ring_inv(h, t, 2) && t.wrapping_sub(h) < 2);
    let mut ring = FakeSq::<2>::new(h, t, 0);
    let subs = subs_of(ring.shared(2, false, false));
    let kind = any_kind();
    let fd: i32 = kani::any();
    kani::assume(fd >= 0);
    let args = (Domain(libc::AF_INET), Type(libc::SOCK_STREAM as u32), Protocol(0));
    let freed = crate::io_uring::op::verif_op::abandoned_final_completion::<fd::Kind, (Domain, Type, Protocol)>(kind, args, fd, 0);
    assert!(freed, "state of the abandoned operation reclaimed");
    let queued_close = ring.tail.load(std::sync::atomic::Ordering::SeqCst) == t.wrapping_add(1);
    let sync_close = unsafe { env::E.close_n } == 1 && unsafe { env::E.closed[0] } == fd;
    assert!(queued_close || sync_close, "descriptor delivered to an abandoned operation is closed");
    kani::cover!(true, "end");
}
