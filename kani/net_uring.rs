//! Harnesses for `src/io_uring/net.rs` (child module): request encoders / result decoders of the socket
//! operations (C13), descriptor wrapping (C07), address read-back (C16 call sites).
#![allow(dead_code, unused, static_mut_refs)]

use super::*;
use crate::io_uring::sq::verif_sq::{W, any_sqe, sqe_bytes, subs_of, zero_sqe};
use crate::io_uring::verif_uring::{self as vu, FakeSq, ring_inv};
use crate::verif_env as env;
use crate::verif_lib::sq_from;
use std::mem::ManuallyDrop;

pub(crate) fn any_kind() -> fd::Kind {
    if kani::any() { fd::Kind::File } else { fd::Kind::Direct }
}
pub(crate) fn cloexec(kind: fd::Kind) -> u32 {
    match kind {
        fd::Kind::File => libc::O_CLOEXEC as u32,
        fd::Kind::Direct => 0,
    }
}
/// ABI: a request that creates a descriptor asks for a direct one with file_index = IORING_FILE_INDEX_ALLOC.
pub(crate) fn set_create(e: &mut sq::Submission, kind: fd::Kind) {
    if let fd::Kind::Direct = kind {
        e.0.__bindgen_anon_5 = libc::io_uring_sqe__bindgen_ty_5 { file_index: libc::IORING_FILE_INDEX_ALLOC as u32 };
    }
}
/// ABI: a request on a direct descriptor carries IOSQE_FIXED_FILE.
pub(crate) fn fixed(kind: fd::Kind) -> u8 {
    match kind {
        fd::Kind::File => 0,
        fd::Kind::Direct => libc::IOSQE_FIXED_FILE,
    }
}

// =========================================================================================
// C13  c13.enc.socket — socket(2): domain, type|SOCK_CLOEXEC (regular) , protocol; direct => file_index ALLOC
// =========================================================================================
#[kani::proof]
#[kani::unwind(3)]
fn c13_enc_socket() {
    let domain: i32 = kani::any();
    let ty: u32 = kani::any();
    let proto: u32 = kani::any();
    let mut kind = any_kind();
    let mut args = (Domain(domain), Type(ty), Protocol(proto));
    let mut s = zero_sqe();
    <SocketOp as Op>::fill_submission(&mut kind, &mut args, &mut s);
    let mut e = zero_sqe();
    e.0.opcode = libc::IORING_OP_SOCKET as u8;
    e.0.fd = domain;
    e.0.__bindgen_anon_1 = libc::io_uring_sqe__bindgen_ty_1 { off: (ty | cloexec(kind)) as u64 };
    e.0.len = proto;
    set_create(&mut e, kind);
    assert!(sqe_bytes(&s) == sqe_bytes(&e), "SOCKET request == socket(domain, type|CLOEXEC, protocol) [+ direct slot allocation]");
    kani::cover!(matches!(kind, fd::Kind::Direct), "direct");
    kani::cover!(matches!(kind, fd::Kind::File), "regular");
}

// =========================================================================================
// C07  c07.wrap.socket / multishot_accept — the descriptor the kernel returns ends up in exactly one AsyncFd of
//      the requested (socket) / inherited (accept) kind
// =========================================================================================
#[kani::proof]
#[kani::unwind(3)]
fn c07_wrap_socket() {
    let mut ring = FakeSq::<1>::new(0, 0, 0);
    let subs = subs_of(ring.shared(1, false, false));
    let sq = ManuallyDrop::new(sq_from((*subs).clone()));
    let kind = any_kind();
    let fd: u32 = kani::any();
    kani::assume(fd <= i32::MAX as u32);
    let a = <SocketOp as Op>::map_ok(&sq, kind, (crate::io_uring::op::verif_op::cflags(0), fd));
    assert!(a.fd() == fd as i32 && a.kind() == kind);
    std::mem::forget(a);
    assert!(unsafe { env::E.close_n } == 0);
    kani::cover!(matches!(kind, fd::Kind::Direct), "direct");
}

#[kani::proof]
#[kani::unwind(3)]
fn c07_wrap_multishot_accept() {
    let mut ring = FakeSq::<1>::new(0, 0, 0);
    let subs = subs_of(ring.shared(1, false, false));
    let kind = any_kind();
    let lfd_n: i32 = kani::any();
    kani::assume(lfd_n >= 0);
    let lfd = ManuallyDrop::new(unsafe { AsyncFd::from_raw(lfd_n, kind, sq_from((*subs).clone())) });
    let fd: u32 = kani::any();
    kani::assume(fd <= i32::MAX as u32);
    let a = <MultishotAcceptOp as FdIter>::map_next(&lfd, &(), (crate::io_uring::op::verif_op::cflags(0), fd));
    assert!(a.fd() == fd as i32 && a.kind() == kind, "accepted socket has the listener's kind");
    assert!(lfd.fd() == lfd_n && lfd.kind() == kind, "listener untouched");
    std::mem::forget(a);
    kani::cover!(matches!(kind, fd::Kind::Direct), "direct");
}

// =========================================================================================
// C13  c13.enc.multishot_accept — accept4(fd, NULL, NULL, flags|SOCK_CLOEXEC), multishot, always async
// =========================================================================================
#[kani::proof]
#[kani::unwind(3)]
fn c13_enc_multishot_accept() {
    let mut ring = FakeSq::<1>::new(0, 0, 0);
    let subs = subs_of(ring.shared(1, false, false));
    let kind = any_kind();
    let lfd_n: i32 = kani::any();
    kani::assume(lfd_n >= 0);
    let lfd = ManuallyDrop::new(unsafe { AsyncFd::from_raw(lfd_n, kind, sq_from((*subs).clone())) });
    let fl: u32 = kani::any();
    let mut flags = AcceptFlag(fl);
    let mut s = zero_sqe();
    <MultishotAcceptOp as FdIter>::fill_submission(&lfd, &mut (), &mut flags, &mut s);
    let mut e = zero_sqe();
    e.0.opcode = libc::IORING_OP_ACCEPT as u8;
    e.0.ioprio = libc::IORING_ACCEPT_MULTISHOT as u16;
    e.0.fd = lfd_n;
    e.0.__bindgen_anon_3 = libc::io_uring_sqe__bindgen_ty_3 { accept_flags: fl | cloexec(kind) };
    e.0.flags = libc::IOSQE_ASYNC;
    set_create(&mut e, kind);
    assert!(sqe_bytes(&s) == sqe_bytes(&e));
    kani::cover!(matches!(kind, fd::Kind::Direct), "direct");
}

// =========================================================================================
// C07  c07.abandoned.socket — a descriptor the kernel returns for an operation that was abandoned (future dropped
//      while in flight) must be closed.  KNOWN FINDING F9: nothing closes it (see findings/F9).
// =========================================================================================
#[kani::proof]
#[kani::unwind(3)]
fn c07_abandoned_socket() {
    let h: u32 = kani::any();
    let t: u32 = kani::any();
    kani::assume(ring_inv(h, t, 2) && t.wrapping_sub(h) < 2);
    let mut ring = FakeSq::<2>::new(h, t, 0);
    let subs = subs_of(ring.shared(2, false, false));
    let kind = any_kind();
    let fd: i32 = kani::any();
    kani::assume(fd >= 0);
    let args = (Domain(libc::AF_INET), Type(libc::SOCK_STREAM as u32), Protocol(0));
    let freed = crate::io_uring::op::verif_op::abandoned_final_completion::<fd::Kind, (Domain, Type, Protocol)>(kind, args, fd, 0);
    assert!(freed, "state of the abandoned operation reclaimed");
    let queued_close = ring.tail.load(std::sync::atomic::Ordering::SeqCst) == t.wrapping_add(1);
    let sync_close = unsafe { env::E.close_n } == 1 && unsafe { env::E.closed[0] } == fd;
    assert!(queued_close || sync_close, "descriptor delivered to an abandoned operation is closed");
    kani::cover!(true, "end");
}

// =========================================================================================
// C13  socket operation encoders / decoders (instrumented buffer TB; addresses as SocketAddrV4 / NoAddress)
// =========================================================================================
use crate::io::verif_io::{TB, any_tb};
use crate::io_uring::op::verif_op::cflags;
use std::net::{Ipv4Addr, SocketAddrV4};

fn mk_fd(subs: &crate::io_uring::sq::Submissions) -> (ManuallyDrop<AsyncFd>, i32, fd::Kind) {
    let n: i32 = kani::any();
    kani::assume(n >= 0);
    let kind = any_kind();
    (ManuallyDrop::new(unsafe { AsyncFd::from_raw(n, kind, sq_from(subs.clone())) }), n, kind)
}
fn any_v4() -> SocketAddrV4 {
    SocketAddrV4::new(Ipv4Addr::from(kani::any::<u32>()), kani::any())
}

/// bind(2) / connect(2) / listen(2): address pointer is the storage inside Resources, length is the family's
#[kani::proof]
#[kani::unwind(20)]
fn c13_enc_bind_connect_listen() {
    let mut ring = FakeSq::<1>::new(0, 0, 0);
    let subs = subs_of(ring.shared(1, false, false));
    let (afd, n, _k) = mk_fd(&subs);
    let a = any_v4();
    let mut st = AddressStorage(a.into_storage());
    let mut s = zero_sqe();
    <BindOp<SocketAddrV4> as FdOp>::fill_submission(&afd, &mut st, &mut (), &mut s);
    let mut e = zero_sqe();
    e.0.opcode = libc::IORING_OP_BIND as u8;
    e.0.fd = n;
    e.0.__bindgen_anon_1 = libc::io_uring_sqe__bindgen_ty_1 { addr2: size_of::<libc::sockaddr_in>() as u64 };
    e.0.__bindgen_anon_2 = libc::io_uring_sqe__bindgen_ty_2 { addr: std::ptr::from_ref(&st.0).addr() as u64 };
    assert!(sqe_bytes(&s) == sqe_bytes(&e), "BIND == bind(fd, &addr, sizeof(sockaddr_in)): address inside Resources");
    let mut s = zero_sqe();
    <ConnectOp<SocketAddrV4> as FdOp>::fill_submission(&afd, &mut st, &mut (), &mut s);
    e.0.opcode = libc::IORING_OP_CONNECT as u8;
    e.0.__bindgen_anon_1 = libc::io_uring_sqe__bindgen_ty_1 { off: size_of::<libc::sockaddr_in>() as u64 };
    assert!(sqe_bytes(&s) == sqe_bytes(&e), "CONNECT == connect(fd, &addr, len): length in off");
    assert!(st.0.sin_port == a.port().to_be() && st.0.sin_family == libc::AF_INET as libc::sa_family_t, "the bytes the kernel reads are this address");
    let mut backlog: u32 = kani::any();
    let b0 = backlog;
    let mut s = zero_sqe();
    <ListenOp as FdOp>::fill_submission(&afd, &mut (), &mut backlog, &mut s);
    let mut e = zero_sqe();
    e.0.opcode = libc::IORING_OP_LISTEN as u8;
    e.0.fd = n;
    e.0.len = b0;
    assert!(sqe_bytes(&s) == sqe_bytes(&e), "LISTEN == listen(fd, backlog)");
    let how: u32 = kani::any();
    kani::cover!(true, "end");
}

/// getsockname / getpeername via URING_CMD: out-address and length word inside Resources; the address the kernel
/// wrote is decoded with the length it reported (C16 call site)
#[kani::proof]
#[kani::unwind(20)]
fn c13_socket_name() {
    let mut ring = FakeSq::<1>::new(0, 0, 0);
    let subs = subs_of(ring.shared(1, false, false));
    let (afd, n, _k) = mk_fd(&subs);
    let mut res: AddressStorage<(MaybeUninit<libc::sockaddr_in>, libc::socklen_t)> = AddressStorage((MaybeUninit::uninit(), 0));
    let peer: bool = kani::any();
    let mut name = if peer { Name::Peer } else { Name::Local };
    let mut s = zero_sqe();
    <SocketNameOp<SocketAddrV4> as FdOp>::fill_submission(&afd, &mut res, &mut name, &mut s);
    assert!((res.0).1 as usize == size_of::<libc::sockaddr_in>(), "in/out length initialised to the storage size");
    let mut e = zero_sqe();
    e.0.opcode = libc::IORING_OP_URING_CMD as u8;
    e.0.fd = n;
    e.0.__bindgen_anon_1 = libc::io_uring_sqe__bindgen_ty_1 { __bindgen_anon_1: libc::io_uring_sqe__bindgen_ty_1__bindgen_ty_1 { cmd_op: libc::SOCKET_URING_OP_GETSOCKNAME, __pad1: 0 } };
    e.0.__bindgen_anon_2 = libc::io_uring_sqe__bindgen_ty_2 { addr: (res.0).0.as_ptr().addr() as u64 };
    e.0.__bindgen_anon_5 = libc::io_uring_sqe__bindgen_ty_5 { optlen: if peer { 1 } else { 0 } };
    e.0.__bindgen_anon_6 = libc::io_uring_sqe__bindgen_ty_6 { __bindgen_anon_1: ManuallyDrop::new(libc::io_uring_sqe__bindgen_ty_6__bindgen_ty_1 { addr3: std::ptr::from_ref(&(res.0).1).addr() as u64, __pad2: [0; 1] }) };
    let (ws, we) = (sqe_bytes(&s).0, sqe_bytes(&e).0);
    assert!(ws[0] == we[0], "GETSOCKNAME word0 opcode/flags/ioprio/fd");
    assert!(ws[1] == we[1], "GETSOCKNAME word1 cmd_op");
    assert!(ws[2] == we[2], "GETSOCKNAME word2 addr -> address storage inside Resources");
    assert!(ws[3] == we[3], "GETSOCKNAME word3 len/op_flags");
    assert!(ws[4] == we[4], "GETSOCKNAME word4 user_data");
    assert!(ws[5] == we[5], "GETSOCKNAME word5 buf_group/personality/optlen selects local or peer");
    assert!(ws[6] == we[6], "GETSOCKNAME word6 addr3 -> length word inside Resources");
    assert!(ws[7] == we[7], "GETSOCKNAME word7 pad");
    // the kernel writes an address and its length
    let a = any_v4();
    (res.0).0 = MaybeUninit::new(a.into_storage());
    (res.0).1 = size_of::<libc::sockaddr_in>() as u32;
    let out = <SocketNameOp<SocketAddrV4> as FdOp>::map_ok(&afd, res, (cflags(0), 0));
    assert!(out == a, "decoded address == what the kernel wrote");
    kani::cover!(peer, "peer name");
    kani::cover!(!peer, "local name");
}

/// send / send_zc / sendto: opcode by call kind, buffer = initialised bytes, flags preserved, destination address
#[kani::proof]
#[kani::unwind(20)]
fn c13_enc_send() {
    let mut ring = FakeSq::<1>::new(0, 0, 0);
    let subs = subs_of(ring.shared(1, false, false));
    let (afd, n, _k) = mk_fd(&subs);
    let mut buf = any_tb();
    let orig = buf;
    let zc: bool = kani::any();
    let fl: u32 = kani::any();
    let mut args = (if zc { SendCall::ZeroCopy } else { SendCall::Normal }, SendFlag(fl));
    let mut s = zero_sqe();
    <SendOp<TB> as FdOp>::fill_submission(&afd, &mut buf, &mut args, &mut s);
    let mut e = zero_sqe();
    e.0.opcode = if zc { libc::IORING_OP_SEND_ZC as u8 } else { libc::IORING_OP_SEND as u8 };
    e.0.fd = n;
    e.0.__bindgen_anon_2 = libc::io_uring_sqe__bindgen_ty_2 { addr: orig.base as u64 };
    e.0.__bindgen_anon_3 = libc::io_uring_sqe__bindgen_ty_3 { msg_flags: fl };
    e.0.len = orig.len;
    assert!(sqe_bytes(&s) == sqe_bytes(&e), "SEND[_ZC] == send(fd, buf, len, flags)");
    let cnt: u32 = kani::any();
    let (b, c) = <SendOp<TB> as FdOpExtract>::map_ok_extract(&afd, buf, (cflags(0), cnt));
    assert!(c == cnt as usize && b.base == orig.base && b.len == orig.len);
    // sendto
    let a = any_v4();
    let mut res = (orig, AddressStorage(a.into_storage()));
    let mut s = zero_sqe();
    <SendToOp<TB, SocketAddrV4> as FdOp>::fill_submission(&afd, &mut res, &mut args, &mut s);
    e.0.__bindgen_anon_1 = libc::io_uring_sqe__bindgen_ty_1 { addr2: std::ptr::from_ref(&(res.1).0).addr() as u64 };
    e.0.__bindgen_anon_5 = libc::io_uring_sqe__bindgen_ty_5 { __bindgen_anon_1: libc::io_uring_sqe__bindgen_ty_5__bindgen_ty_1 { addr_len: size_of::<libc::sockaddr_in>() as u16, __pad3: [0] } };
    assert!(sqe_bytes(&s) == sqe_bytes(&e), "SEND with destination == sendto(fd, buf, len, flags, &addr, addrlen): address inside Resources");
    kani::cover!(zc, "zero copy");
    kani::cover!(!zc, "normal");
}

/// sendmsg / sendmsg_zc and recvmsg: msghdr, iovec array and address all live inside Resources; 1 message
#[kani::proof]
#[kani::unwind(20)]
fn c13_enc_msg() {
    let mut ring = FakeSq::<1>::new(0, 0, 0);
    let subs = subs_of(ring.shared(1, false, false));
    let (afd, n, _k) = mk_fd(&subs);
    let bufs = (any_tb(), any_tb());
    kani::assume(bufs.0.len as u64 + bufs.1.len as u64 <= u32::MAX as u64 && (bufs.0.cap - bufs.0.len) as u64 + (bufs.1.cap - bufs.1.len) as u64 <= u32::MAX as u64);
    let iov = unsafe { crate::io::BufSlice::<2>::as_iovecs(&bufs) };
    let a = any_v4();
    let mut res = (bufs, MsgHeader::empty(), iov, AddressStorage(a.into_storage()));
    let zc: bool = kani::any();
    let fl: u32 = kani::any();
    let mut args = (if zc { SendCall::ZeroCopy } else { SendCall::Normal }, SendFlag(fl));
    let mut s = zero_sqe();
    <SendMsgOp<(TB, TB), SocketAddrV4, 2> as FdOp>::fill_submission(&afd, &mut res, &mut args, &mut s);
    let mut e = zero_sqe();
    e.0.opcode = if zc { libc::IORING_OP_SENDMSG_ZC as u8 } else { libc::IORING_OP_SENDMSG as u8 };
    e.0.fd = n;
    e.0.__bindgen_anon_2 = libc::io_uring_sqe__bindgen_ty_2 { addr: std::ptr::from_ref(&res.1).addr() as u64 };
    e.0.__bindgen_anon_3 = libc::io_uring_sqe__bindgen_ty_3 { msg_flags: fl };
    e.0.len = 1;
    assert!(sqe_bytes(&s) == sqe_bytes(&e), "SENDMSG[_ZC]: the msghdr inside Resources, flags, one message");
    let m = unsafe { &*(std::ptr::from_ref(&res.1) as *const libc::msghdr) };
    assert!(m.msg_name.addr() == std::ptr::from_ref(&(res.3).0).addr() && m.msg_namelen as usize == size_of::<libc::sockaddr_in>(), "msg_name -> the address inside Resources");
    assert!(m.msg_iov.addr() == res.2.as_ptr().addr() && m.msg_iovlen == 2 && m.msg_control.is_null() && m.msg_controllen == 0, "msg_iov -> the iovec array inside Resources");
    // recvmsg with a source address
    let mut rb = bufs;
    let riov = unsafe { crate::io::BufMutSlice::<2>::as_iovecs_mut(&mut rb) };
    let mut rres = (rb, MsgHeader::empty(), riov, MaybeUninit::<libc::sockaddr_in>::uninit());
    let rfl: u32 = kani::any();
    let mut rflags = RecvFlag(rfl);
    let mut s = zero_sqe();
    <RecvFromVectoredOp<(TB, TB), SocketAddrV4, 2> as FdOp>::fill_submission(&afd, &mut rres, &mut rflags, &mut s);
    let mut e = zero_sqe();
    e.0.opcode = libc::IORING_OP_RECVMSG as u8;
    e.0.fd = n;
    e.0.__bindgen_anon_2 = libc::io_uring_sqe__bindgen_ty_2 { addr: std::ptr::from_ref(&rres.1).addr() as u64 };
    e.0.__bindgen_anon_3 = libc::io_uring_sqe__bindgen_ty_3 { msg_flags: rfl };
    e.0.len = 1;
    assert!(sqe_bytes(&s) == sqe_bytes(&e), "RECVMSG: the msghdr inside Resources");
    let m = unsafe { &*(std::ptr::from_ref(&rres.1) as *const libc::msghdr) };
    assert!(m.msg_name.addr() == rres.3.as_ptr().addr() && m.msg_namelen as usize == size_of::<libc::sockaddr_in>() && m.msg_iov.addr() == rres.2.as_ptr().addr() && m.msg_iovlen == 2, "address buffer and iovecs inside Resources");
    kani::cover!(zc, "zero copy");
}

/// recv(2) into a caller buffer or a pool buffer; multishot recv; shutdown
#[kani::proof]
#[kani::unwind(20)]
fn c13_enc_recv() {
    let mut ring = FakeSq::<1>::new(0, 0, 0);
    let subs = subs_of(ring.shared(1, false, false));
    let (afd, n, _k) = mk_fd(&subs);
    let mut buf = any_tb();
    let orig = buf;
    let fl: u32 = kani::any();
    let mut flags = RecvFlag(fl);
    let mut s = zero_sqe();
    <RecvOp<TB> as FdOp>::fill_submission(&afd, &mut buf, &mut flags, &mut s);
    let mut e = zero_sqe();
    e.0.opcode = libc::IORING_OP_RECV as u8;
    e.0.fd = n;
    e.0.__bindgen_anon_2 = libc::io_uring_sqe__bindgen_ty_2 { addr: orig.base.wrapping_add(orig.len as usize) as u64 };
    e.0.__bindgen_anon_3 = libc::io_uring_sqe__bindgen_ty_3 { msg_flags: fl };
    e.0.len = orig.cap - orig.len;
    assert!(sqe_bytes(&s) == sqe_bytes(&e), "RECV == recv(fd, spare part of the buffer, spare capacity, flags)");
    let got: u32 = kani::any();
    kani::assume(got <= orig.cap - orig.len);
    let out = <RecvOp<TB> as FdOp>::map_ok(&afd, buf, (cflags(0), got));
    assert!(out.len == orig.len + got && out.base == orig.base, "exactly n bytes appended");
    let how: u32 = kani::any();
    let mut h = match how % 3 { 0 => std::net::Shutdown::Read, 1 => std::net::Shutdown::Write, _ => std::net::Shutdown::Both };
    let mut s = zero_sqe();
    <ShutdownOp as FdOp>::fill_submission(&afd, &mut (), &mut h, &mut s);
    assert!(s.0.opcode == libc::IORING_OP_SHUTDOWN as u8 && s.0.fd == n && s.0.len == match how % 3 { 0 => libc::SHUT_RD, 1 => libc::SHUT_WR, _ => libc::SHUT_RDWR } as u32, "SHUTDOWN == shutdown(fd, how)");
    kani::cover!(got == 0, "orderly shutdown by the peer");
}

/// getsockopt / setsockopt via URING_CMD (KeepAlive as the representative option: all options share the generic code)
#[kani::proof]
#[kani::unwind(4)]
fn c13_sockopt() {
    use crate::net::option::{self, Get, Set};
    let mut ring = FakeSq::<1>::new(0, 0, 0);
    let subs = subs_of(ring.shared(1, false, false));
    let (afd, n, _k) = mk_fd(&subs);
    let mut st: OptionStorage<MaybeUninit<libc::c_int>> = OptionStorage(MaybeUninit::uninit());
    let mut s = zero_sqe();
    <SocketOptionOp<option::KeepAlive> as FdOp>::fill_submission(&afd, &mut st, &mut (), &mut s);
    let w = sqe_bytes(&s).0;
    let mut e = zero_sqe();
    e.0.opcode = libc::IORING_OP_URING_CMD as u8;
    e.0.fd = n;
    e.0.__bindgen_anon_1 = libc::io_uring_sqe__bindgen_ty_1 { __bindgen_anon_1: libc::io_uring_sqe__bindgen_ty_1__bindgen_ty_1 { cmd_op: libc::SOCKET_URING_OP_GETSOCKOPT, __pad1: 0 } };
    e.0.__bindgen_anon_2 = libc::io_uring_sqe__bindgen_ty_2 { __bindgen_anon_1: libc::io_uring_sqe__bindgen_ty_2__bindgen_ty_1 { level: libc::SOL_SOCKET as u32, optname: libc::SO_KEEPALIVE as u32 } };
    e.0.__bindgen_anon_5 = libc::io_uring_sqe__bindgen_ty_5 { optlen: 4 };
    let we = sqe_bytes(&e).0;
    assert!(w[0] == we[0] && w[1] == we[1] && w[2] == we[2] && w[3] == we[3] && w[4] == we[4] && w[5] == we[5], "GETSOCKOPT cmd: level, optname, optlen == size of the option's storage");
    assert!(w[6] == st.0.as_ptr().addr() as u64, "optval -> the storage inside Resources");
    let v: i32 = kani::any();
    st.0 = MaybeUninit::new(v);
    let out = <SocketOptionOp<option::KeepAlive> as FdOp>::map_ok(&afd, st, (cflags(0), 4));
    assert!(out == (v >= 1), "decoded from the storage the kernel filled");
    // set
    let val: bool = kani::any();
    let mut sst = OptionStorage(<option::KeepAlive as Set>::as_storage(val));
    let mut s = zero_sqe();
    <SetSocketOptionOp<option::KeepAlive> as FdOp>::fill_submission(&afd, &mut sst, &mut (), &mut s);
    let w = sqe_bytes(&s).0;
    e.0.__bindgen_anon_1 = libc::io_uring_sqe__bindgen_ty_1 { __bindgen_anon_1: libc::io_uring_sqe__bindgen_ty_1__bindgen_ty_1 { cmd_op: libc::SOCKET_URING_OP_SETSOCKOPT, __pad1: 0 } };
    let we = sqe_bytes(&e).0;
    assert!(w[0] == we[0] && w[1] == we[1] && w[2] == we[2] && w[3] == we[3] && w[4] == we[4] && w[5] == we[5], "SETSOCKOPT cmd");
    assert!(w[6] == std::ptr::from_ref(&sst.0).addr() as u64 && sst.0 == val as i32, "optval -> the value inside Resources");
    kani::cover!(val, "enable");
    kani::cover!(v == 0, "read disabled");
}

/// accept4(2) with an address: out-address and in/out length inside Resources; result wrapped with the listener's kind
/// and the address decoded with the kernel-reported length (C07/C16 call site)
#[kani::proof]
#[kani::unwind(20)]
fn c13_accept() {
    let mut ring = FakeSq::<1>::new(0, 0, 0);
    let subs = subs_of(ring.shared(1, false, false));
    let (afd, n, kind) = mk_fd(&subs);
    let mut res: AddressStorage<(MaybeUninit<libc::sockaddr_in>, libc::socklen_t)> = AddressStorage((MaybeUninit::uninit(), 0));
    let fl: u32 = kani::any();
    let mut flags = AcceptFlag(fl);
    let mut s = zero_sqe();
    <AcceptOp<SocketAddrV4> as FdOp>::fill_submission(&afd, &mut res, &mut flags, &mut s);
    assert!((res.0).1 as usize == size_of::<libc::sockaddr_in>());
    let mut e = zero_sqe();
    e.0.opcode = libc::IORING_OP_ACCEPT as u8;
    e.0.fd = n;
    e.0.__bindgen_anon_1 = libc::io_uring_sqe__bindgen_ty_1 { off: std::ptr::from_ref(&(res.0).1).addr() as u64 };
    e.0.__bindgen_anon_2 = libc::io_uring_sqe__bindgen_ty_2 { addr: (res.0).0.as_ptr().addr() as u64 };
    e.0.__bindgen_anon_3 = libc::io_uring_sqe__bindgen_ty_3 { accept_flags: fl | cloexec(kind) };
    e.0.flags = libc::IOSQE_ASYNC;
    set_create(&mut e, kind);
    assert!(sqe_bytes(&s) == sqe_bytes(&e), "ACCEPT == accept4(fd, &addr, &addrlen, flags|CLOEXEC): both out-parameters inside Resources");
    let a = any_v4();
    (res.0).0 = MaybeUninit::new(a.into_storage());
    (res.0).1 = size_of::<libc::sockaddr_in>() as u32;
    let newfd: u32 = kani::any();
    kani::assume(newfd <= i32::MAX as u32);
    let (sock, addr) = <AcceptOp<SocketAddrV4> as FdOp>::map_ok(&afd, res, (cflags(0), newfd));
    assert!(sock.fd() == newfd as i32 && sock.kind() == kind && addr == a, "one AsyncFd of the listener's kind + the peer address the kernel wrote");
    std::mem::forget(sock);
    kani::cover!(matches!(kind, fd::Kind::Direct), "direct");
}
