//! Harnesses for `src/io_uring/op.rs` — the operation state machine (child module of `io_uring::op`).
//! One transition per harness (DESIGN.md rule 2); the transitions are chained by the Verus lemmas.
#![allow(dead_code, unused, static_mut_refs)]

use super::*;
use crate::io_uring::cq::verif_cq::cqe;
use crate::io_uring::sq::verif_sq::{W, ZERO_W, any_sqe, sqe_bytes, subs_of, zero_sqe};
use crate::io_uring::sq::Submissions;
use crate::io_uring::verif_uring::{self as vu, FakeSq, ring_inv};
use crate::verif_env as env;
use std::mem::ManuallyDrop;
use std::sync::atomic::Ordering;

// ------------------------------------------------------------------ ghost state

/// One static for all ghost counters (see env.rs on why not several small statics).
pub(crate) struct Ghost {
    pub magic: u64,
    /// how many times a `Res` value has been dropped
    pub res_drops: u32,
    /// marker of the last dropped `Res`
    pub last_dropped: u32,
    pub map_ok_calls: u32,
    pub fallback_calls: u32,
    pub fill_calls: u32,
    /// how many times an operation's boxed state has been freed (== drops of its `Args`)
    pub state_frees: u32,
}
pub(crate) static mut G: Ghost = Ghost { magic: 0x0BAD_5EED_A10A_0001, res_drops: 0, last_dropped: 0, map_ok_calls: 0, fallback_calls: 0, fill_calls: 0, state_frees: 0 };

/// Instrumented resource: dropping it is observable.
pub(crate) struct Res {
    pub marker: u32,
    pub payload: [u8; 8],
}
impl Drop for Res {
    fn drop(&mut self) {
        unsafe {
            G.res_drops += 1;
            G.last_dropped = self.marker;
        }
    }
}
/// Instrumented arguments: they are dropped exactly when the boxed state is freed, which makes "the state
/// was freed N times" observable (Kani cannot answer `can_dereference` for freed memory).
pub(crate) struct Args {
    pub v: u64,
}
impl Drop for Args {
    fn drop(&mut self) {
        unsafe { G.state_frees += 1 };
    }
}
pub(crate) fn args(v: u64) -> Args {
    Args { v }
}
pub(crate) fn frees() -> u32 {
    unsafe { G.state_frees }
}
pub(crate) type SState = State<Singleshot, Res, Args>;
pub(crate) type MState = State<Multishot, Res, Args>;

pub(crate) const TEST_OPCODE: u8 = 0x7f;

/// The test operation's encoder: stamps the resource address, marker and args into the entry.
pub(crate) fn fill(_t: &SubmissionQueue, r: &mut Res, a: &mut Args, s: &mut Submission) {
    unsafe { G.fill_calls += 1 };
    s.0.opcode = TEST_OPCODE;
    s.0.__bindgen_anon_2 = libc::io_uring_sqe__bindgen_ty_2 { addr: std::ptr::from_mut(r).addr() as u64 };
    s.0.len = r.marker;
    s.0.__bindgen_anon_1 = libc::io_uring_sqe__bindgen_ty_1 { off: a.v };
}
pub(crate) fn expected_sqe(res_addr: usize, marker: u32, args: u64, user_data: u64) -> W {
    let mut e = zero_sqe();
    e.0.opcode = TEST_OPCODE;
    e.0.__bindgen_anon_2 = libc::io_uring_sqe__bindgen_ty_2 { addr: res_addr as u64 };
    e.0.len = marker;
    e.0.__bindgen_anon_1 = libc::io_uring_sqe__bindgen_ty_1 { off: args };
    e.0.user_data = user_data;
    sqe_bytes(&e)
}
pub(crate) fn map_ok(_t: &SubmissionQueue, r: Res, ret: OpReturn) -> (u32, u32, u32) {
    unsafe { G.map_ok_calls += 1 };
    let m = r.marker;
    std::mem::forget(r); // ownership reached the caller: not a drop by a10
    (m, ret.1, ret.0.0)
}
pub(crate) fn map_next(_t: &SubmissionQueue, r: &Res, ret: OpReturn) -> (u32, u32, u32) {
    unsafe { G.map_ok_calls += 1 };
    (r.marker, ret.1, ret.0.0)
}
pub(crate) fn fb(_t: &SubmissionQueue, r: Res, _a: &mut Args, err: io::Error) -> io::Result<(u32, u32, u32)> {
    unsafe { G.fallback_calls += 1 };
    std::mem::forget(r);
    Err(err)
}
pub(crate) fn fb_next(_t: &SubmissionQueue, _r: &Res, _a: &mut Args, err: io::Error) -> io::Result<(u32, u32, u32)> {
    unsafe { G.fallback_calls += 1 };
    Err(err)
}

// ------------------------------------------------------------------ state inspection / forcing

#[derive(Copy, Clone, PartialEq, Eq)]
pub(crate) enum St {
    NotStarted,
    Running,
    Done,
    Dropped,
    Complete,
}

pub(crate) fn data_of<T, R, A>(s: &State<T, R, A>) -> &Data<T, R, A> {
    unsafe { s.data.as_ref() }
}
pub(crate) fn status_of<T, R, A>(s: &State<T, R, A>) -> St {
    match &crate::lock(&data_of(s).shared).status {
        Status::NotStarted => St::NotStarted,
        Status::Running { .. } => St::Running,
        Status::Done { .. } => St::Done,
        Status::Dropped { .. } => St::Dropped,
        Status::Complete => St::Complete,
    }
}
pub(crate) fn waker_id_of<T, R, A>(s: &State<T, R, A>) -> Option<usize> {
    crate::lock(&data_of(s).shared).waker.as_ref().map(env::waker_id)
}
pub(crate) fn res_addr<T, A>(s: &State<T, Res, A>) -> usize {
    data_of(s).tail.resources.get().addr()
}
pub(crate) fn box_addr<T, R, A>(s: &State<T, R, A>) -> usize {
    s.data.as_ptr().addr()
}
pub(crate) fn single_result(s: &SState) -> Option<(i32, u32)> {
    match &crate::lock(&data_of(s).shared).status {
        Status::Running { results } | Status::Done { results } => Some((results.0.result, results.0.flags.0)),
        _ => None,
    }
}
pub(crate) fn cflags(f: u32) -> CompletionFlags {
    CompletionFlags(f)
}
pub(crate) fn cr(result: i32, flags: u32) -> CompletionResult {
    CompletionResult { flags: CompletionFlags(flags), result }
}
pub(crate) fn force_single(s: &SState, st: St, stored: (i32, u32), waker: Option<usize>) {
    let mut sh = crate::lock(&data_of(s).shared);
    sh.status = match st {
        St::NotStarted => Status::NotStarted,
        St::Running => Status::Running { results: Singleshot(cr(stored.0, stored.1)) },
        St::Done => Status::Done { results: Singleshot(cr(stored.0, stored.1)) },
        // NOTE: deliberately no `drop_state` here: taking its address makes it a candidate target of every
        // `unsafe fn(*const ())` call CBMC sees (waker vtables) and the resulting recursion through
        // Box<Data> -> Waker::drop -> ... blows the harness up.  Use `force_single_dropped` where needed.
        St::Dropped => unreachable!(),
        St::Complete => Status::Complete,
    };
    sh.waker = waker.map(env::waker);
}
pub(crate) fn force_single_dropped(s: &SState) {
    let mut sh = crate::lock(&data_of(s).shared);
    sh.status = Status::Dropped { drop: drop_state::<Singleshot, Res, Args> };
    sh.waker = None;
}
pub(crate) fn any_res() -> Res {
    Res { marker: kani::any(), payload: kani::any() }
}
pub(crate) fn any_st() -> St {
    match kani::any::<u8>() % 5 {
        0 => St::NotStarted,
        1 => St::Running,
        2 => St::Done,
        3 => St::Dropped,
        _ => St::Complete,
    }
}
/// Kernel-producible result: a count or a negative errno.
pub(crate) fn any_kernel_res() -> i32 {
    let r: i32 = kani::any();
    kani::assume(r >= -4095);
    r
}
pub(crate) fn sqref(subs: &Submissions) -> &SubmissionQueue {
    SubmissionQueue::from_ref(subs)
}

// =========================================================================================
// C01  c01.state_new — the operation state is boxed once; its address (plus tag) is the user_data;
//      resources live inside that box.
// =========================================================================================
//@waker_stubs
#[kani::proof]
#[kani::unwind(3)]
fn c01_state_new() {
    let marker: u32 = kani::any();
    let args: u64 = kani::any();
    let s: SState = State::new(Res { marker, payload: kani::any() }, super::verif_op::args(args));
    let m: MState = State::new(Res { marker, payload: kani::any() }, super::verif_op::args(args));
    let ud = s.user_data();
    assert!(ud as usize & TAG_MASK_ == box_addr(&s) && ud & 1 == 0, "singleshot user_data == box address, tag 0");
    let udm = m.user_data();
    assert!(udm as usize & TAG_MASK_ == box_addr(&m) && udm & 1 == 1, "multishot user_data == box address | 1");
    assert!(ud > 3 && udm > 3, "never collides with the reserved user_data values");
    // resources are inside the boxed Data
    let lo = box_addr(&s);
    let hi = lo + size_of::<Data<Singleshot, Res, Args>>();
    assert!(res_addr(&s) >= lo && res_addr(&s) + size_of::<Res>() <= hi, "resources live inside the box");
    assert!(status_of(&s) == St::NotStarted && waker_id_of(&s).is_none());
    assert!(s.args().v == args);
    // the Mutex<Shared> is the first field (what Completion::process casts the pointer to)
    assert!(std::ptr::from_ref(&data_of(&s).shared).addr() == lo, "Mutex<Shared> at offset 0");
    assert!(std::ptr::from_ref(&data_of(&m).shared).addr() == box_addr(&m));
    std::mem::forget(s);
    std::mem::forget(m);
    kani::cover!(true, "end");
}
const TAG_MASK_: usize = !1usize;

// =========================================================================================
// C01/C02/C03  update.single.* — Shared::<Singleshot>::update from every reachable status
// =========================================================================================
//@waker_stubs
#[kani::proof]
#[kani::unwind(3)]
fn update_single() {
    let s: SState = State::new(any_res(), args(kani::any()));
    let st = any_st();
    kani::assume(st == St::Running || st == St::Done || st == St::Dropped);
    let stored = (any_kernel_res(), kani::any::<u32>());
    let has_waker: bool = kani::any();
    if st == St::Dropped {
        force_single_dropped(&s);
    } else {
        force_single(&s, st, stored, if has_waker { Some(2) } else { None });
    }
    let res = any_kernel_res();
    let flags: u32 = kani::any();
    let c = cqe(s.user_data(), res, flags);
    let more = flags & libc::IORING_CQE_F_MORE != 0;
    let notif = flags & libc::IORING_CQE_F_NOTIF != 0;
    let upd = crate::lock(&data_of(&s).shared).update(&c);
    let st2 = status_of(&s);
    match st {
        St::Running | St::Done => {
            // never asks for the state to be dropped while the future may still use it
            assert!(!matches!(upd, StatusUpdate::Drop { .. }), "no Drop from Running/Done");
            // status: done exactly when the completion is final
            if more {
                assert!(st2 == st, "a non-final completion leaves the status unchanged");
            } else {
                assert!(st2 == St::Done, "the final completion moves to Done");
            }
            // result: last writer, except the zero-copy notification keeps the stored value
            let want = if notif { stored } else { (res, flags) };
            assert!(single_result(&s) == Some(want), "stored result: last non-NOTIF completion");
            // wake-up: exactly when the operation became done, with the stored waker, which is consumed
            if !more && has_waker {
                assert!(matches!(&upd, StatusUpdate::Wake(w) if env::waker_id(w) == 2), "final completion returns the stored waker");
                assert!(waker_id_of(&s).is_none(), "waker consumed");
            } else {
                assert!(matches!(upd, StatusUpdate::Ok));
                assert!(waker_id_of(&s) == if has_waker { Some(2) } else { None }, "waker kept for later");
            }
        }
        St::Dropped => {
            if more {
                assert!(matches!(upd, StatusUpdate::Ok), "abandoned op: not freed while more completions are coming");
            } else {
                assert!(matches!(upd, StatusUpdate::Drop { drop } if drop as usize == drop_state::<Singleshot, Res, Args> as usize), "abandoned op: freed on the final completion, with its own destructor");
            }
            assert!(st2 == St::Dropped);
        }
        _ => {}
    }
    assert!(unsafe { G.res_drops } == 0, "update never drops resources");
    std::mem::forget(upd);
    std::mem::forget(s);
    kani::cover!(st == St::Running && !more && has_waker, "final + waker");
    kani::cover!(st == St::Running && more && notif, "zero-copy first completion");
    kani::cover!(st == St::Done && !more, "second final (Done -> Done)");
    kani::cover!(st == St::Dropped && !more, "dropped, final");
    kani::cover!(st == St::Dropped && more, "dropped, more coming");
}

// =========================================================================================
// Instrumented multishot result container: lets CBMC run the *generic* code (Shared::<T>::update, poll_inner)
// on its IS_MULTISHOT = true paths without std's Vec growth code in the cone.  The real container
// (`Multishot`: Vec::push / remove(0)) is proved FIFO for unbounded lengths by the Verus unit `multishot`.
// =========================================================================================
pub(crate) const TQ: usize = 4;
pub(crate) struct TestMulti {
    pub n: usize,
    pub q: [(i32, u32); TQ],
}
impl OpResult for TestMulti {
    fn empty() -> TestMulti {
        TestMulti { n: 0, q: [(0, 0); TQ] }
    }
    fn update(&mut self, result: CompletionResult, _: u32) {
        self.q[self.n] = (result.result, result.flags.0);
        self.n += 1;
    }
    const IS_MULTISHOT: bool = true;
    fn next(&mut self) -> Option<CompletionResult> {
        if self.n == 0 {
            return None;
        }
        let r = self.q[0];
        self.q[0] = self.q[1];
        self.q[1] = self.q[2];
        self.q[2] = self.q[3];
        self.n -= 1;
        Some(cr(r.0, r.1))
    }
    fn has_next(&self) -> bool {
        self.n != 0
    }
}
pub(crate) type TState = State<TestMulti, Res, Args>;
pub(crate) fn force_tmulti(s: &TState, st: St, n: usize, q: [(i32, u32); TQ], waker: Option<usize>) {
    let mut sh = crate::lock(&data_of(s).shared);
    sh.status = match st {
        St::NotStarted => Status::NotStarted,
        St::Running => Status::Running { results: TestMulti { n, q } },
        St::Done => Status::Done { results: TestMulti { n, q } },
        St::Dropped => unreachable!(),
        St::Complete => Status::Complete,
    };
    sh.waker = waker.map(env::waker);
}
pub(crate) fn force_tmulti_dropped(s: &TState) {
    let mut sh = crate::lock(&data_of(s).shared);
    sh.status = Status::Dropped { drop: drop_state::<TestMulti, Res, Args> };
    sh.waker = None;
}
pub(crate) fn tmulti(s: &TState) -> Option<(usize, [(i32, u32); TQ])> {
    match &crate::lock(&data_of(s).shared).status {
        Status::Running { results } | Status::Done { results } => Some((results.n, results.q)),
        _ => None,
    }
}

// =========================================================================================
// C02/C03  update.multi — Shared::<T>::update with T::IS_MULTISHOT: appends in order, wakes on EVERY
//          completion, Done exactly on the final one
// =========================================================================================
fn update_multi_case(dropped: bool) {
    let s: TState = State::new(any_res(), args(kani::any()));
    let st = if dropped { St::Dropped } else if kani::any() { St::Running } else { St::Done };
    let n: usize = kani::any();
    kani::assume(n <= 3);
    let q: [(i32, u32); TQ] = [(kani::any(), kani::any()), (kani::any(), kani::any()), (kani::any(), kani::any()), (kani::any(), kani::any())];
    let has_waker: bool = kani::any();
    if dropped {
        force_tmulti_dropped(&s);
    } else {
        force_tmulti(&s, st, n, q, if has_waker { Some(3) } else { None });
    }
    let res = any_kernel_res();
    let flags: u32 = kani::any();
    let c = cqe(s.user_data(), res, flags);
    let more = flags & libc::IORING_CQE_F_MORE != 0;
    let upd = crate::lock(&data_of(&s).shared).update(&c);
    let st2 = status_of(&s);
    match st {
        St::Running | St::Done => {
            assert!(!matches!(upd, StatusUpdate::Drop { .. }));
            assert!(st2 == if more { st } else { St::Done });
            let (n2, q2) = tmulti(&s).unwrap();
            assert!(n2 == n + 1, "exactly one result appended");
            assert!(n < 1 || q2[0] == q[0], "earlier results keep their position");
            assert!(n < 2 || q2[1] == q[1], "earlier results keep their position");
            assert!(n < 3 || q2[2] == q[2], "earlier results keep their position");
            assert!(q2[n] == (res, flags), "new result is last");
            if has_waker {
                assert!(matches!(&upd, StatusUpdate::Wake(w) if env::waker_id(w) == 3), "multishot: every completion wakes the stored waker");
                assert!(waker_id_of(&s).is_none());
            } else {
                assert!(matches!(upd, StatusUpdate::Ok));
            }
        }
        St::Dropped => {
            if more {
                assert!(matches!(upd, StatusUpdate::Ok), "abandoned multishot: kept until the final completion");
            } else {
                assert!(matches!(upd, StatusUpdate::Drop { drop } if drop as usize == drop_state::<TestMulti, Res, Args> as usize));
            }
        }
        _ => {}
    }
    assert!(unsafe { G.res_drops } == 0 && frees() == 0);
    std::mem::forget(upd);
    std::mem::forget(s);
    kani::cover!(more, "more coming");
    kani::cover!(!more, "final");
}
//@waker_stubs
#[kani::proof]
#[kani::unwind(3)]
fn update_multi_live() {
    update_multi_case(false);
}
//@waker_stubs
#[kani::proof]
#[kani::unwind(3)]
fn update_multi_dropped() {
    update_multi_case(true);
}

// =========================================================================================
// C01/C06  drop.* — OpState::drop from every status
//   Running  => exactly one cancel request for this user_data (iff the queue has room), status Dropped with this
//               type's destructor, nothing freed, resources not dropped
//   otherwise => no cancel request; the box is freed now; resources dropped iff status != Complete
// =========================================================================================
fn drop_case(st: St, waker: Option<usize>) {
    let marker: u32 = kani::any();
    let mut s: SState = State::new(Res { marker, payload: kani::any() }, args(kani::any()));
    force_single(&s, st, (any_kernel_res(), kani::any()), waker);
    let h: u32 = kani::any();
    let t: u32 = kani::any();
    kani::assume(ring_inv(h, t, 2));
    let mut ring = FakeSq::<2>::new(h, t, 0);
    ring.sqes[0] = any_sqe();
    ring.sqes[1] = any_sqe();
    let before = [sqe_bytes(&ring.sqes[0]), sqe_bytes(&ring.sqes[1])];
    let subs = subs_of(ring.shared(2, false, false));
    let ud = s.user_data();
    unsafe { OpState::drop(&mut s, sqref(&subs)) };
    let t2 = ring.tail.load(Ordering::SeqCst);
    let room = t.wrapping_sub(h) < 2;
    if st == St::Running {
        // deferred
        assert!(frees() == 0, "state of an in-flight operation is not freed");
        assert!(status_of(&s) == St::Dropped);
        let d = match &crate::lock(&data_of(&s).shared).status {
            Status::Dropped { drop } => *drop as usize,
            _ => 0,
        };
        assert!(d == drop_state::<Singleshot, Res, Args> as usize, "deferred destructor is this operation's own");
        assert!(unsafe { G.res_drops } == 0, "resources of an in-flight operation are not dropped");
        if room {
            assert!(t2 == t.wrapping_add(1), "exactly one request queued");
            let idx = (t & 1) as usize;
            let mut e = zero_sqe();
            e.0.opcode = libc::IORING_OP_ASYNC_CANCEL as u8;
            e.0.__bindgen_anon_2 = libc::io_uring_sqe__bindgen_ty_2 { addr: ud };
            e.0.user_data = CANCEL_USER_DATA_;
            e.0.flags = libc::IOSQE_CQE_SKIP_SUCCESS;
            assert!(sqe_bytes(&ring.sqes[idx]) == sqe_bytes(&e), "the cancel request targets exactly this operation");
            assert!(sqe_bytes(&ring.sqes[1 - idx]) == before[1 - idx]);
        } else {
            assert!(t2 == t, "queue full: no request, wait for the result");
        }
    } else {
        assert!(t2 == t, "no cancel request for an operation that is not in flight");
        assert!(sqe_bytes(&ring.sqes[0]) == before[0] && sqe_bytes(&ring.sqes[1]) == before[1]);
        assert!(frees() == 1, "state freed immediately, exactly once");
        if st == St::Complete {
            assert!(unsafe { G.res_drops } == 0, "resources already moved out: not dropped again");
        } else {
            assert!(unsafe { G.res_drops } == 1 && unsafe { G.last_dropped } == marker, "resources dropped exactly once");
        }
    }
    kani::cover!(room, "room in the queue");
    kani::cover!(!room, "queue full");
}
const CANCEL_USER_DATA_: u64 = 2;

//@waker_stubs
#[kani::proof]
#[kani::unwind(3)]
fn drop_not_started() {
    drop_case(St::NotStarted, None);
}
//@waker_stubs
#[kani::proof]
#[kani::unwind(3)]
fn drop_running() {
    drop_case(St::Running, None);
}
//@waker_stubs
#[kani::proof]
#[kani::unwind(3)]
fn drop_done() {
    drop_case(St::Done, None);
}
//@waker_stubs
#[kani::proof]
#[kani::unwind(3)]
fn drop_running_with_waker() {
    drop_case(St::Running, Some(1));
}
//@waker_stubs
#[kani::proof]
#[kani::unwind(3)]
fn drop_done_with_waker() {
    drop_case(St::Done, Some(1));
}
//@waker_stubs
#[kani::proof]
#[kani::unwind(3)]
fn drop_complete() {
    drop_case(St::Complete, None);
}

// =========================================================================================
// C06  drop_state — the deferred destructor (what Completion::process calls on StatusUpdate::Drop)
// =========================================================================================
//@waker_stubs
#[kani::proof]
#[kani::unwind(3)]
fn drop_state_deferred() {
    let marker: u32 = kani::any();
    let s: SState = State::new(Res { marker, payload: kani::any() }, args(kani::any()));
    force_single_dropped(&s);
    let p = s.data.as_ptr();
    // the erased pointer Completion::process passes is user_data & TAG_MASK
    let erased = (s.user_data() as usize & TAG_MASK_) as *mut ();
    assert!(erased.addr() == p.addr());
    unsafe { drop_state::<Singleshot, Res, Args>(p.cast()) };
    assert!(frees() == 1, "freed exactly once");
    assert!(unsafe { G.res_drops } == 1 && unsafe { G.last_dropped } == marker, "resources of the abandoned operation dropped exactly once");
    std::mem::forget(s);
    kani::cover!(true, "end");
}

// =========================================================================================
// C03/C04/C13  poll.not_started — first poll: one submission carrying exactly fill_submission's
//   output + this operation's user_data; status Running; the poll's waker is stored (while the op lock is
//   still held across add) — or, when the queue is full, the waker is registered as blocked and nothing changes.
// =========================================================================================
//@waker_stubs
#[kani::proof]
#[kani::unwind(3)]
fn poll_not_started() {
    let marker: u32 = kani::any();
    let args: u64 = kani::any();
    let mut s: SState = State::new(Res { marker, payload: kani::any() }, super::verif_op::args(args));
    let h: u32 = kani::any();
    let t: u32 = kani::any();
    kani::assume(ring_inv(h, t, 2));
    let mut ring = FakeSq::<2>::new(h, t, 0);
    let subs = subs_of(ring.shared(2, false, false));
    let w = env::waker(4);
    let mut ctx = task::Context::from_waker(&w);
    let r = poll(sqref(&subs), &mut s, &mut ctx, fill, map_ok, fb);
    assert!(r.is_pending(), "first poll is Pending");
    let room = t.wrapping_sub(h) < 2;
    if room {
        assert!(status_of(&s) == St::Running);
        assert!(waker_id_of(&s) == Some(4), "waker of this poll stored");
        assert!(ring.tail.load(Ordering::SeqCst) == t.wrapping_add(1));
        let idx = (t & 1) as usize;
        assert!(sqe_bytes(&ring.sqes[idx]) == expected_sqe(res_addr(&s), marker, args, s.user_data()), "entry == fill_submission output + user_data");
        assert!(vu::blocked_len(subs.shared()) == 0);
        assert!(unsafe { G.fill_calls } == 1);
    } else {
        assert!(status_of(&s) == St::NotStarted, "queue full: still not started");
        assert!(ring.tail.load(Ordering::SeqCst) == t);
        assert!(vu::blocked_len(subs.shared()) == 1 && vu::blocked_id(subs.shared(), 0) == 4, "waker registered for a free slot");
    }
    assert!(unsafe { G.res_drops } == 0 && env::total_wakes() == 0);
    std::mem::forget(s);
    kani::cover!(room && t < h, "submitted, wrapped counters");
    kani::cover!(!room, "queue full");
}

// =========================================================================================
// C03  poll.running.single — re-poll while in flight: Pending, the *latest* waker is stored
// =========================================================================================
fn poll_running_single_case(old: Option<usize>) {
    let mut s: SState = State::new(any_res(), args(kani::any()));
    let stored = (any_kernel_res(), kani::any::<u32>());
    force_single(&s, St::Running, stored, old);
    let mut ring = FakeSq::<2>::new(0, 0, 0);
    let subs = subs_of(ring.shared(2, false, false));
    let w = env::waker(4);
    let mut ctx = task::Context::from_waker(&w);
    let r = poll(sqref(&subs), &mut s, &mut ctx, fill, map_ok, fb);
    assert!(r.is_pending(), "singleshot resolves only when Done (two-step operations wait for the second completion)");
    assert!(status_of(&s) == St::Running && single_result(&s) == Some(stored));
    assert!(waker_id_of(&s) == Some(4), "most recent waker stored");
    assert!(ring.tail.load(Ordering::SeqCst) == 0, "no new submission");
    assert!(env::total_wakes() == 0 && unsafe { G.res_drops } == 0);
    std::mem::forget(s);
    kani::cover!(true, "end");
}
//@waker_stubs
#[kani::proof]
#[kani::unwind(3)]
fn poll_running_single_none() {
    poll_running_single_case(None);
}
//@waker_stubs
#[kani::proof]
#[kani::unwind(3)]
fn poll_running_single_same() {
    poll_running_single_case(Some(4));
}
//@waker_stubs
#[kani::proof]
#[kani::unwind(3)]
fn poll_running_single_other() {
    poll_running_single_case(Some(5));
}

// =========================================================================================
// C02/C09/C01  poll.done.single.* — poll of a finished singleshot operation
//   result >= 0           => Ready(Ok(map_ok(resources, (flags, result)))), status Complete, resources MOVED OUT once
//   -EINTR / -ECANCELED   => restarted: Pending, one new submission byte-identical to the first one (same resources at
//                            the same address, same args), status Running, waker stored, nothing returned, nothing dropped
//   other error           => Ready(Err(that errno)) through the fallback, status Complete, resources handed over once
// =========================================================================================
fn poll_done_single_case(class: u8, result: i32) {
    let marker: u32 = kani::any();
    let a: u64 = kani::any();
    let mut s: SState = State::new(Res { marker, payload: kani::any() }, args(a));
    let is_restart = result == -libc::EINTR || result == -libc::ECANCELED;
    match class {
        0 => kani::assume(result >= 0),
        1 => kani::assume(is_restart),
        _ => kani::assume(result < 0 && !is_restart),
    }
    let flags: u32 = kani::any();
    force_single(&s, St::Done, (result, flags), None);
    let h: u32 = kani::any();
    let t: u32 = kani::any();
    kani::assume(ring_inv(h, t, 2));
    let mut ring = FakeSq::<2>::new(h, t, 0);
    let subs = subs_of(ring.shared(2, false, false));
    let w = env::waker(4);
    let mut ctx = task::Context::from_waker(&w);
    let raddr = res_addr(&s);
    let r = poll(sqref(&subs), &mut s, &mut ctx, fill, map_ok, fb);
    let t2 = ring.tail.load(Ordering::SeqCst);
    let room = t.wrapping_sub(h) < 2;
    if result >= 0 {
        assert!(matches!(&r, Poll::Ready(Ok((m, n, f))) if *m == marker && *n == result as u32 && *f == flags), "Ready(Ok) with this operation's stored result and its own resources");
        assert!(status_of(&s) == St::Complete && t2 == t);
        assert!(unsafe { G.map_ok_calls } == 1 && unsafe { G.fallback_calls } == 0 && unsafe { G.res_drops } == 0);
    } else if result == -libc::EINTR || result == -libc::ECANCELED {
        assert!(r.is_pending(), "the interruption itself is never reported");
        assert!(unsafe { G.map_ok_calls } == 0 && unsafe { G.fallback_calls } == 0 && unsafe { G.res_drops } == 0, "resources neither moved nor dropped");
        assert!(res_addr(&s) == raddr, "same resources, same address");
        if room {
            assert!(status_of(&s) == St::Running && waker_id_of(&s) == Some(4));
            assert!(t2 == t.wrapping_add(1), "exactly one new submission");
            let idx = (t & 1) as usize;
            assert!(sqe_bytes(&ring.sqes[idx]) == expected_sqe(raddr, marker, a, s.user_data()), "re-issued request is byte-identical to the first one");
            assert!(single_result(&s) == Some((0, 0)), "nothing of the earlier attempt is kept");
        } else {
            assert!(status_of(&s) == St::NotStarted && t2 == t);
            assert!(vu::blocked_len(subs.shared()) == 1 && vu::blocked_id(subs.shared(), 0) == 4, "queue full: will be retried when woken");
        }
    } else {
        assert!(matches!(&r, Poll::Ready(Err(e)) if e.raw_os_error() == Some(-result)), "other errors are returned as they are");
        assert!(status_of(&s) == St::Complete && t2 == t);
        assert!(unsafe { G.fallback_calls } == 1 && unsafe { G.map_ok_calls } == 0 && unsafe { G.res_drops } == 0);
    }
    assert!(frees() == 0);
    std::mem::forget(r);
    std::mem::forget(s);
    kani::cover!(room, "room");
    kani::cover!(!room, "full");
}
//@waker_stubs
#[kani::proof]
#[kani::unwind(3)]
fn poll_done_single_sym_ok() {
    poll_done_single_case(0, any_kernel_res());
}
//@waker_stubs
#[kani::proof]
#[kani::unwind(3)]
fn poll_done_single_sym_restart() {
    poll_done_single_case(1, any_kernel_res());
}
//@waker_stubs
#[kani::proof]
#[kani::unwind(3)]
fn poll_done_single_sym_err() {
    poll_done_single_case(2, any_kernel_res());
}
// =========================================================================================
// C02  poll.complete_panics — a second poll after completion can never yield a value
// =========================================================================================
//@waker_stubs
#[kani::proof]
#[kani::unwind(3)]
#[kani::should_panic]
fn poll_complete_panics() {
    let mut s: SState = State::new(any_res(), args(kani::any()));
    force_single(&s, St::Complete, (0, 0), None);
    let mut ring = FakeSq::<2>::new(0, 0, 0);
    let subs = subs_of(ring.shared(2, false, false));
    let w = env::waker(4);
    let mut ctx = task::Context::from_waker(&w);
    kani::cover!(true, "about to poll a completed operation");
    let r = poll(sqref(&subs), &mut s, &mut ctx, fill, map_ok, fb);
    // not reached: should_panic makes Kani require the panic
    std::mem::forget(r);
    std::mem::forget(s);
}

// =========================================================================================
// C02/C03/C09  poll_next.* — multishot state machine (generic code, instrumented container)
// =========================================================================================
fn poll_next_case(st: St) -> (usize, bool, bool) {
    let marker: u32 = kani::any();
    let a: u64 = kani::any();
    let mut s: TState = State::new(Res { marker, payload: kani::any() }, args(a));
    let n: usize = kani::any();
    kani::assume(n <= 3);
    let q: [(i32, u32); TQ] = [(kani::any(), kani::any()), (kani::any(), kani::any()), (kani::any(), kani::any()), (kani::any(), kani::any())];
    kani::assume(q[0].0 >= -4095);
    // kernel contract: an interruption/cancellation result is the final completion of a submission, so once the
    // stream is Done it can only be the last queued result
    kani::assume(!(st == St::Done && n > 1 && (q[0].0 == -libc::EINTR || q[0].0 == -libc::ECANCELED)));
    force_tmulti(&s, st, n, q, None);
    let h: u32 = kani::any();
    let t: u32 = kani::any();
    kani::assume(ring_inv(h, t, 2));
    let mut ring = FakeSq::<2>::new(h, t, 0);
    let subs = subs_of(ring.shared(2, false, false));
    let w = env::waker(4);
    let mut ctx = task::Context::from_waker(&w);
    let raddr = res_addr(&s);
    let r = poll_next(sqref(&subs), &mut s, &mut ctx, fill, map_next, fb_next);
    let t2 = ring.tail.load(Ordering::SeqCst);
    let room = t.wrapping_sub(h) < 2;
    let first = q[0];
    let restart = first.0 == -libc::EINTR || first.0 == -libc::ECANCELED;
    if n > 0 && !(st == St::Done && restart) {
        // head of the queue is delivered, the rest keeps its order
        if first.0 >= 0 {
            assert!(matches!(&r, Poll::Ready(Some(Ok((m, v, f)))) if *m == marker && *v == first.0 as u32 && *f == first.1), "oldest queued result is delivered");
        } else {
            assert!(matches!(&r, Poll::Ready(Some(Err(e))) if e.raw_os_error() == Some(-first.0)));
        }
        let (n2, q2) = tmulti(&s).unwrap();
        assert!(n2 == n - 1 && status_of(&s) == st, "one result consumed, status unchanged");
        assert!(n < 2 || q2[0] == q[1], "remaining results keep their order");
        assert!(n < 3 || q2[1] == q[2], "remaining results keep their order");
        assert!(t2 == t && unsafe { G.res_drops } == 0, "resources stay with the operation");
    } else if n > 0 {
        // Done + EINTR/ECANCELED at the head
        if n == 1 {
            assert!(r.is_pending(), "interrupted at the end of the stream: restarted, not reported");
            assert!(unsafe { G.res_drops } == 0 && res_addr(&s) == raddr);
            if room {
                assert!(status_of(&s) == St::Running && waker_id_of(&s) == Some(4) && t2 == t.wrapping_add(1));
                let idx = (t & 1) as usize;
                assert!(sqe_bytes(&ring.sqes[idx]) == expected_sqe(raddr, marker, a, s.user_data()), "re-issued request identical");
            } else {
                assert!(status_of(&s) == St::NotStarted);
            }
        }
        // n > 1 with an interruption that is not the last result cannot be produced by the kernel
        // (the interruption is the final completion); the code asserts it.
    } else if st == St::Running {
        assert!(r.is_pending() && waker_id_of(&s) == Some(4) && status_of(&s) == St::Running, "nothing yet: Pending with the waker stored");
        assert!(t2 == t && unsafe { G.res_drops } == 0);
    } else {
        // Done and drained: end of stream, exactly once, resources dropped exactly once
        assert!(matches!(&r, Poll::Ready(None)), "end of stream");
        assert!(status_of(&s) == St::Complete);
        assert!(unsafe { G.res_drops } == 1 && unsafe { G.last_dropped } == marker, "resources dropped exactly once at the end of the stream");
        assert!(t2 == t);
    }
    assert!(frees() == 0);
    std::mem::forget(r);
    std::mem::forget(s);
    kani::cover!(n == 0, "empty queue");
    kani::cover!(n == 3 && first.0 >= 0, "three queued, head ok");
    kani::cover!(n == 1 && first.0 < 0 && !restart, "queued error");
    (n, restart, room)
}
//@waker_stubs
#[kani::proof]
#[kani::unwind(3)]
fn poll_next_running() {
    poll_next_case(St::Running);
}
//@waker_stubs
#[kani::proof]
#[kani::unwind(3)]
fn poll_next_done() {
    let (n, restart, room) = poll_next_case(St::Done);
    kani::cover!(n == 1 && restart && room, "restart at end of stream");
    kani::cover!(n == 1 && restart && !room, "restart at end of stream, queue full");
}

// =========================================================================================
// C01/C02/C03/C06  process.* — Completion::process on a real operation state: dispatch through the user_data
//   pointer + tag, exactly one update, the waker woken exactly once / the abandoned state freed exactly once.
// =========================================================================================
pub(crate) fn process(c: &crate::io_uring::cq::Completion) {
    unsafe { crate::io_uring::cq::verif_cq::call_process(c) }
}

//@waker_stubs
#[kani::proof]
#[kani::unwind(3)]
fn process_single_running() {
    let s: SState = State::new(any_res(), args(kani::any()));
    let stored = (any_kernel_res(), kani::any::<u32>());
    let has_waker: bool = kani::any();
    force_single(&s, St::Running, stored, if has_waker { Some(2) } else { None });
    // a second, unrelated operation that must not be touched
    let o: SState = State::new(any_res(), args(kani::any()));
    force_single(&o, St::Running, (7, 0), Some(1));
    let res = any_kernel_res();
    let flags: u32 = kani::any();
    kani::assume(flags & libc::IORING_CQE_F_SKIP == 0);
    let c = cqe(s.user_data(), res, flags);
    process(&c);
    let more = flags & libc::IORING_CQE_F_MORE != 0;
    let notif = flags & libc::IORING_CQE_F_NOTIF != 0;
    assert!(status_of(&s) == if more { St::Running } else { St::Done });
    assert!(single_result(&s) == Some(if notif { stored } else { (res, flags) }), "the completion's result reaches exactly this operation");
    if !more && has_waker {
        assert!(env::wakes(2) == 1 && env::total_wakes() == 1, "its waker is woken exactly once");
    } else {
        assert!(env::total_wakes() == 0);
    }
    assert!(status_of(&o) == St::Running && single_result(&o) == Some((7, 0)) && waker_id_of(&o) == Some(1), "other operations are untouched");
    assert!(frees() == 0 && unsafe { G.res_drops } == 0, "nothing freed");
    std::mem::forget(s);
    std::mem::forget(o);
    kani::cover!(!more && has_waker, "final completion wakes");
    kani::cover!(more, "non-final");
}

//@waker_stubs
#[kani::proof]
#[kani::unwind(3)]
fn process_single_dropped() {
    let marker: u32 = kani::any();
    let s: SState = State::new(Res { marker, payload: kani::any() }, args(kani::any()));
    force_single_dropped(&s);
    let res = any_kernel_res();
    let flags: u32 = kani::any();
    kani::assume(flags & libc::IORING_CQE_F_SKIP == 0);
    let c = cqe(s.user_data(), res, flags);
    process(&c);
    let more = flags & libc::IORING_CQE_F_MORE != 0;
    if more {
        assert!(frees() == 0 && unsafe { G.res_drops } == 0, "abandoned operation kept alive until its final completion");
        assert!(status_of(&s) == St::Dropped);
    } else {
        assert!(frees() == 1, "abandoned operation's state freed exactly once on its final completion");
        assert!(unsafe { G.res_drops } == 1 && unsafe { G.last_dropped } == marker, "and its resources dropped exactly once");
    }
    assert!(env::total_wakes() == 0);
    std::mem::forget(s);
    kani::cover!(more, "more coming");
    kani::cover!(!more, "final");
}

// =========================================================================================
// Helper for C07/C08 "abandoned operation" obligations: what Completion::process does for an operation whose
// future was dropped while in flight, when its final completion (res, flags) arrives: update(Dropped) => Drop,
// then the erased destructor.  Generic over the real Resources/Args of any operation.
// Returns true if the state was freed.
// =========================================================================================
pub(crate) fn abandoned_final_completion<R, A>(resources: R, args: A, res: i32, flags: u32) -> bool {
    let s: State<Singleshot, R, A> = State::new(resources, args);
    {
        let mut sh = crate::lock(&data_of(&s).shared);
        sh.status = Status::Dropped { drop: drop_state::<Singleshot, R, A> };
    }
    let c = cqe(s.user_data(), res, flags);
    let upd = crate::lock(&data_of(&s).shared).update(&c);
    let freed = match upd {
        StatusUpdate::Drop { drop: _ } => {
            unsafe { drop_state::<Singleshot, R, A>(s.data.as_ptr().cast()) };
            true
        }
        other => {
            std::mem::forget(other);
            false
        }
    };
    std::mem::forget(s);
    freed
}

// =========================================================================================
// C06/C01  drop.rg — rely/guarantee for OpState::drop: the completion thread may process this operation's FINAL
//   completion at any moment it can get the operation's lock, i.e. right before any lock acquisition drop makes.
//   Guarantee: the state is reclaimed exactly once — if the final completion was already processed when drop
//   decides, drop frees now (nobody else will); it is never left in Dropped with no completion to come.
// =========================================================================================
pub(crate) struct RgCtx {
    pub magic: u64,
    pub state: *const SState,
    pub res: i32,
    pub flags: u32,
    pub delivered: u32,
}
pub(crate) static mut RG: RgCtx = RgCtx { magic: 0x5EED_0006_A10A_0002, state: std::ptr::null(), res: 0, flags: 0, delivered: 0 };

/// Environment step: Completion::process for this operation's final completion (update under the lock; the waker
/// / destructor part of process is covered by process.* and drop_state obligations).
fn env_final_completion() {
    unsafe {
        let s = &*RG.state;
        let c = cqe(s.user_data(), RG.res, RG.flags);
        let mut sh = crate::lock(&data_of(s).shared);
        if matches!(sh.status, Status::Running { .. }) {
            let upd = sh.update(&c);
            std::mem::forget(upd);
            RG.delivered = 1;
        }
    }
}

fn drop_rg_case(skip: u32) -> bool {
    let marker: u32 = kani::any();
    let mut s: SState = State::new(Res { marker, payload: kani::any() }, args(kani::any()));
    force_single(&s, St::Running, (0, 0), None);
    let h: u32 = kani::any();
    let t: u32 = kani::any();
    kani::assume(ring_inv(h, t, 2));
    let mut ring = FakeSq::<2>::new(h, t, 0);
    let subs = subs_of(ring.shared(2, false, false));
    unsafe {
        RG.state = &s;
        RG.res = any_kernel_res();
        RG.flags = 0; // final: no F_MORE
        env::E.lock_addr = std::ptr::from_ref(&data_of(&s).shared).addr();
        env::E.lock_kind = env::LK_CALL;
        env::E.lock_fn = Some(env_final_completion);
        env::E.lock_skip = skip;
    }
    unsafe { OpState::drop(&mut s, sqref(&subs)) };
    let fired = unsafe { env::E.lock_fired } == 1;
    let delivered = unsafe { RG.delivered } == 1;
    if delivered {
        // the kernel is done with the operation and its completion has been consumed: only drop can reclaim it
        assert!(frees() == 1, "final completion already processed: drop reclaims the state itself, exactly once");
        assert!(unsafe { G.res_drops } == 1 && unsafe { G.last_dropped } == marker);
    } else {
        assert!(frees() == 0 && unsafe { G.res_drops } == 0, "still in flight: reclaim is left to the completion handler");
        assert!(status_of(&s) == St::Dropped);
    }
    delivered
}
//@waker_stubs
#[kani::proof]
#[kani::unwind(3)]
fn drop_rg_first_lock() {
    let delivered = drop_rg_case(0);
    kani::cover!(delivered, "completion processed just before drop took the lock");
}
//@waker_stubs
#[kani::proof]
#[kani::unwind(3)]
fn drop_rg_later_lock() {
    // interference at a second acquisition of the operation lock, should drop ever make one (check-then-act)
    let _ = drop_rg_case(1);
    kani::cover!(true, "end");
}

// =========================================================================================
// Helpers for the composite-operation step contracts (C10): force a real operation's state to `Done(res, flags)`
// (what Completion::process/Shared::update leave behind after the final completion).
// =========================================================================================
pub(crate) fn force_done<R, A>(s: &State<Singleshot, R, A>, res: i32, flags: u32) {
    let mut sh = crate::lock(&data_of(s).shared);
    sh.status = Status::Done { results: Singleshot(cr(res, flags)) };
    sh.waker = None;
}
pub(crate) fn status_any<R, A>(s: &State<Singleshot, R, A>) -> St {
    status_of(s)
}
pub(crate) fn user_data_of<R, A>(s: &State<Singleshot, R, A>) -> u64 {
    s.user_data()
}
pub(crate) fn resources_addr<R, A>(s: &State<Singleshot, R, A>) -> usize {
    data_of(s).tail.resources.get().addr()
}

// =========================================================================================
// op.fallback — the error mapper every operation's default fallback uses: EINVAL => ErrorKind::Unsupported,
// every other error is returned unchanged (same errno).  Proved here once; other obligations replace it by the
// identity through the cfg(kani) hook at its first line.
// =========================================================================================
//@waker_stubs
#[kani::proof]
#[kani::unwind(3)]
fn op_fallback_other() {
    let code: i32 = kani::any();
    kani::assume(code >= 1 && code <= 4095 && code != libc::EINVAL);
    let e = fallback(io::Error::from_raw_os_error(code));
    assert!(e.raw_os_error() == Some(code), "errors other than EINVAL are passed through unchanged");
    std::mem::forget(e);
    kani::cover!(code == libc::EINTR, "EINTR");
}

// =========================================================================================
// Contract of `poll` (singleshot) used by the composite-operation obligations (C10) in place of its body.
// It encodes exactly what the op.poll.* obligations prove about the real poll_inner:
//   NotStarted: one entry == fill_submission output + set_flags + own user_data queued (room) => Running, waker stored,
//               Pending; queue full => still NotStarted, waker registered as blocked, Pending   [op.poll.not_started]
//   Running   : Pending, most recent waker stored                                               [op.poll.running.*]
//   Done, r>=0: Complete, resources moved out exactly once, Ready(Ok(map_ok(target, resources, (flags, r))))
//                                                                                               [op.poll.done.ok]
// Any other situation (negative results, restart) is outside the contract: the hook declines and the real body runs.
// =========================================================================================
/// The switch is read first and on its own so that CBMC folds it: with the contract on, the real body of `poll` is
/// syntactically unreachable (not merely infeasible) and stays out of the cone.
pub(crate) fn poll_contract_on<O: OpResult>() -> bool {
    let on = unsafe { env::E.poll_contract != 0 };
    on && !O::IS_MULTISHOT
}
pub(crate) fn poll_contract<T, O, R, A, Out>(
    target: &T,
    state: &mut State<O, R, A>,
    ctx: &mut task::Context<'_>,
    fill_submission: &impl Fn(&T, &mut R, &mut A, &mut Submission),
    map_ok: &impl Fn(&T, R, OpReturn) -> Out,
) -> Poll<io::Result<Out>>
where
    T: OpTarget,
    O: OpResult,
{
    let user_data = state.user_data();
    let data = unsafe { state.data.as_mut() };
    let mut shared = crate::lock(&data.shared);
    match &mut shared.status {
        Status::NotStarted => {
            let submissions = target.sq().submissions();
            let result = submissions.add(|submission| {
                let resources = unsafe { data.tail.resources.get_mut().assume_init_mut() };
                fill_submission(target, resources, &mut data.tail.args, submission);
                target.set_flags(submission);
                submission.0.user_data = user_data;
            });
            match result {
                Ok(()) => {
                    shared.waker = Some(ctx.waker().clone());
                    shared.status = Status::Running { results: O::empty() };
                }
                Err(QueueFull) => {
                    drop(shared);
                    submissions.wait_for_submission(ctx.waker().clone());
                }
            }
            Poll::Pending
        }
        Status::Running { .. } => {
            set_waker(&mut shared.waker, ctx.waker());
            Poll::Pending
        }
        Status::Done { results } => {
            let r = results.next().unwrap();
            // outside the contract: a harness that enables it must keep results non-negative (reported as a failure
            // otherwise; the real body is deliberately NOT used as a fall-back so that its cost stays out of the cone)
            assert!(r.result >= 0, "poll_contract used outside its precondition (negative result)");
            shared.status = Status::Complete;
            drop(shared);
            let resources = unsafe { data.tail.resources.get().cast::<R>().read() };
            Poll::Ready(Ok(map_ok(target, resources, (r.flags, r.result as u32))))
        }
        _ => {
            assert!(false, "poll_contract used outside its precondition (Dropped/Complete)");
            Poll::Pending
        }
    }
}

// =========================================================================================
// C13  builder gate — arguments/resources can be changed exactly until the first submission; the next encoding
//      reflects them (fill_submission reads the stored args: op.poll.not_started).
// =========================================================================================
//@waker_stubs
#[kani::proof]
#[kani::unwind(3)]
fn c13_builder_gate() {
    let mut s: SState = State::new(any_res(), args(kani::any()));
    let st = any_st();
    kani::assume(st != St::Dropped);
    force_single(&s, st, (0, 0), None);
    let v: u64 = kani::any();
    let changed = match s.args_mut() {
        Some(a) => {
            a.v = v;
            true
        }
        None => false,
    };
    assert!(changed == (st == St::NotStarted), "builder settings take effect only before the first poll");
    assert!(s.resources_mut().is_some() == (st == St::NotStarted));
    if changed {
        assert!(s.args().v == v);
    }
    std::mem::forget(s);
    kani::cover!(st == St::NotStarted, "not started");
    kani::cover!(st == St::Running, "running");
}

/// Target = AsyncFd: the request carries IOSQE_FIXED_FILE exactly for direct descriptors (on top of the encoder's output)
pub(crate) fn fill_fd(_t: &AsyncFd, r: &mut Res, a: &mut Args, s: &mut Submission) {
    s.0.opcode = TEST_OPCODE;
    s.0.len = r.marker;
    s.0.__bindgen_anon_1 = libc::io_uring_sqe__bindgen_ty_1 { off: a.v };
    // the encoder's own request flags (real encoders set IOSQE_BUFFER_SELECT, IOSQE_ASYNC, ...): any byte without FIXED_FILE
    s.0.flags = r.payload[0] & !libc::IOSQE_FIXED_FILE;
}
pub(crate) fn map_ok_fd(_t: &AsyncFd, r: Res, ret: OpReturn) -> u32 {
    std::mem::forget(r);
    ret.1
}
pub(crate) fn fb_fd(_t: &AsyncFd, r: Res, _a: &mut Args, err: io::Error) -> io::Result<u32> {
    std::mem::forget(r);
    Err(err)
}
//@waker_stubs
#[kani::proof]
#[kani::unwind(3)]
fn c13_fd_target_flags() {
    let marker: u32 = kani::any();
    let a: u64 = kani::any();
    let own_flags: u8 = kani::any();
    let mut s: SState = State::new(Res { marker, payload: [own_flags, 0, 0, 0, 0, 0, 0, 0] }, args(a));
    let mut ring = FakeSq::<2>::new(0, 0, 0);
    let subs = subs_of(ring.shared(2, false, false));
    let direct: bool = kani::any();
    let n: i32 = kani::any();
    kani::assume(n >= 0);
    let afd = ManuallyDrop::new(unsafe { AsyncFd::from_raw(n, if direct { crate::fd::Kind::Direct } else { crate::fd::Kind::File }, crate::verif_lib::sq_from((*subs).clone())) });
    let w = env::waker(4);
    let mut ctx = task::Context::from_waker(&w);
    let r = poll(&*afd, &mut s, &mut ctx, fill_fd, map_ok_fd, fb_fd);
    assert!(r.is_pending() && ring.tail.load(Ordering::SeqCst) == 1);
    let mut e = zero_sqe();
    e.0.opcode = TEST_OPCODE;
    e.0.len = marker;
    e.0.__bindgen_anon_1 = libc::io_uring_sqe__bindgen_ty_1 { off: a };
    e.0.user_data = s.user_data();
    e.0.flags = (own_flags & !libc::IOSQE_FIXED_FILE) | if direct { libc::IOSQE_FIXED_FILE } else { 0 };
    assert!(sqe_bytes(&ring.sqes[0]) == sqe_bytes(&e), "FIXED_FILE iff the descriptor is direct; nothing else added, none of the encoder's own flags lost");
    std::mem::forget(s);
    kani::cover!(direct && own_flags & libc::IOSQE_BUFFER_SELECT != 0, "direct descriptor, buffer-select request");
    kani::cover!(direct, "direct");
    kani::cover!(!direct, "regular");
}

/// Read-only view of the resources stored in an operation state (NotStarted / Done / Complete-before-reuse only).
pub(crate) fn peek_resources<R, A>(s: &State<Singleshot, R, A>) -> &R {
    unsafe { &*data_of(s).tail.resources.get().cast::<R>() }
}
