//! Harnesses for `src/io_uring/pipe.rs`.
#![allow(dead_code, unused, static_mut_refs)]

use super::*;
use crate::io_uring::net::verif_net::{any_kind, cloexec, set_create};
use crate::io_uring::sq::verif_sq::{W, sqe_bytes, subs_of, zero_sqe};
use crate::io_uring::verif_uring::{self as vu, FakeSq};
use crate::verif_env as env;
use crate::verif_lib::sq_from;
use std::mem::ManuallyDrop;

// C13  c13.enc.pipe — pipe2(fds, flags|O_CLOEXEC): the fd array handed to the kernel is the one inside Resources
#[kani::proof]
#[kani::unwind(3)]
fn c13_enc_pipe() {
    let kind = any_kind();
    let mut res: ([RawFd; 2], fd::Kind) = ([-1, -1], kind);
    let fl: u32 = kani::any();
    let mut flags = PipeFlag(fl);
    let mut s = zero_sqe();
    PipeOp::fill_submission(&mut res, &mut flags, &mut s);
    let mut e = zero_sqe();
    e.0.opcode = libc::IORING_OP_PIPE as u8;
    e.0.__bindgen_anon_2 = libc::io_uring_sqe__bindgen_ty_2 { addr: std::ptr::from_ref(&res.0).addr() as u64 };
    e.0.__bindgen_anon_3 = libc::io_uring_sqe__bindgen_ty_3 { pipe_flags: fl | cloexec(kind) };
    set_create(&mut e, kind);
    assert!(sqe_bytes(&s) == sqe_bytes(&e), "PIPE request: out-array is the Resources' own array (C01), flags|CLOEXEC");
    kani::cover!(matches!(kind, fd::Kind::Direct), "direct");
}

// C07  c07.wrap.pipe — both returned descriptors are wrapped exactly once, read end first, with the requested kind
#[kani::proof]
#[kani::unwind(3)]
fn c07_wrap_pipe() {
    let mut ring = FakeSq::<1>::new(0, 0, 0);
    let subs = subs_of(ring.shared(1, false, false));
    let sq = ManuallyDrop::new(sq_from((*subs).clone()));
    let kind = any_kind();
    let r: i32 = kani::any();
    let w: i32 = kani::any();
    kani::assume(r >= 0 && w >= 0);
    let [a, b] = PipeOp::map_ok(&sq, ([r, w], kind), (CompletionFlags::empty(), 0));
    assert!(a.fd() == r && b.fd() == w && a.kind() == kind && b.kind() == kind);
    std::mem::forget(a);
    std::mem::forget(b);
    assert!(unsafe { env::E.close_n } == 0);
    kani::cover!(matches!(kind, fd::Kind::Direct), "direct");
}
