//! Harnesses for `src/io_uring/process.rs` and `mem.rs` encoders (C13).
#![allow(dead_code, unused, static_mut_refs)]

use super::*;
use crate::io_uring::net::verif_net::any_kind;
use crate::io_uring::op::verif_op::cflags;
use crate::io_uring::sq::verif_sq::{W, sqe_bytes, subs_of, zero_sqe};
use crate::io_uring::verif_uring::FakeSq;
use crate::verif_lib::sq_from;
use std::mem::ManuallyDrop;

/// waitid(2): id type and id, options, the siginfo out-buffer is the one inside Resources
#[kani::proof]
#[kani::unwind(4)]
fn c13_enc_waitid() {
    let mut info: WaitInfo = unsafe { std::mem::zeroed() };
    let which: u8 = kani::any();
    let pid: u32 = kani::any();
    let opts: u32 = kani::any();
    let mut args = (match which % 3 { 0 => WaitOn::Process(pid), 1 => WaitOn::Group(pid), _ => WaitOn::All }, WaitOption(opts));
    let mut s = zero_sqe();
    <WaitIdOp as Op>::fill_submission(&mut info, &mut args, &mut s);
    let mut e = zero_sqe();
    e.0.opcode = libc::IORING_OP_WAITID as u8;
    e.0.fd = if which % 3 == 2 { 0 } else { pid as i32 };
    e.0.__bindgen_anon_1 = libc::io_uring_sqe__bindgen_ty_1 { addr2: std::ptr::from_ref(&info).addr() as u64 };
    e.0.len = match which % 3 { 0 => libc::P_PID, 1 => libc::P_PGID, _ => libc::P_ALL };
    e.0.__bindgen_anon_5 = libc::io_uring_sqe__bindgen_ty_5 { file_index: opts };
    assert!(sqe_bytes(&s) == sqe_bytes(&e), "WAITID == waitid(idtype, id, &info, options): info inside Resources");
    kani::cover!(which % 3 == 2, "wait for any child");
    kani::cover!(which % 3 == 0, "wait for a pid");
}

/// signalfd read: a whole signalfd_siginfo into the buffer inside Resources, at the current position, always async
#[kani::proof]
#[kani::unwind(4)]
fn c13_enc_receive_signal() {
    let mut ring = FakeSq::<1>::new(0, 0, 0);
    let subs = subs_of(ring.shared(1, false, false));
    let n: i32 = kani::any();
    kani::assume(n >= 0);
    let afd = ManuallyDrop::new(unsafe { AsyncFd::from_raw(n, any_kind(), sq_from((*subs).clone())) });
    let mut info: MaybeUninit<crate::process::SignalInfo> = MaybeUninit::uninit();
    let mut s = zero_sqe();
    <ReceiveSignalOp as FdOp>::fill_submission(&afd, &mut info, &mut (), &mut s);
    let mut e = zero_sqe();
    e.0.opcode = libc::IORING_OP_READ as u8;
    e.0.fd = n;
    e.0.__bindgen_anon_1 = libc::io_uring_sqe__bindgen_ty_1 { off: u64::MAX };
    e.0.__bindgen_anon_2 = libc::io_uring_sqe__bindgen_ty_2 { addr: info.as_ptr().addr() as u64 };
    e.0.len = size_of::<libc::signalfd_siginfo>() as u32;
    e.0.flags = libc::IOSQE_ASYNC;
    assert!(sqe_bytes(&s) == sqe_bytes(&e), "READ of one signalfd_siginfo into Resources");
    kani::cover!(true, "end");
}

/// madvise(2)
#[kani::proof]
#[kani::unwind(4)]
fn c13_enc_madvise() {
    let addr: usize = kani::any();
    let len: u32 = kani::any();
    let adv: u32 = kani::any();
    let mut args = (addr as *mut (), len, crate::mem::AdviseFlag(adv));
    let mut s = zero_sqe();
    <crate::io_uring::mem::AdviseOp as Op>::fill_submission(&mut (), &mut args, &mut s);
    let mut e = zero_sqe();
    e.0.opcode = libc::IORING_OP_MADVISE as u8;
    e.0.fd = -1;
    e.0.__bindgen_anon_2 = libc::io_uring_sqe__bindgen_ty_2 { addr: addr as u64 };
    e.0.len = len;
    e.0.__bindgen_anon_3 = libc::io_uring_sqe__bindgen_ty_3 { fadvise_advice: adv };
    assert!(sqe_bytes(&s) == sqe_bytes(&e), "MADVISE == madvise(addr, len, advice)");
    kani::cover!(true, "end");
}
