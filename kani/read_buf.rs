//! Harnesses for `src/io/read_buf.rs` (child module): ReadBuf edits against byte-vector semantics (C15) and
//! release-exactly-once (C08).  The pool memory is a real allocation: slot of BS bytes between other slots and
//! canary bytes, so any out-of-slot access is either a CBMC pointer failure or a changed canary/neighbour.
#![allow(dead_code, unused, static_mut_refs)]

use super::*;
use crate::io_uring::io::verif_uio::{BS8, FakePool, P4};
use crate::io_uring::sq::verif_sq::subs_of;
use crate::io_uring::verif_uring::FakeSq;
use crate::verif_env as env;
use crate::verif_lib::sq_from;
use std::mem::ManuallyDrop;

type Pool = FakePool<P4, BS8>;

/// A ReadBuf owning slot `id` of the fake pool with `len` initialised bytes (symbolic contents).
fn setup(fp: &mut Pool, ring: &mut FakeSq<1>, id: usize, len: usize) -> (ManuallyDrop<ReadBuf>, ManuallyDrop<Arc<sys::io::ReadBufPool>>) {
    let subs = subs_of(ring.shared(1, false, false));
    let pool = fp.pool(sq_from((*subs).clone()), 9);
    let shared = Arc::new(ManuallyDrop::into_inner(pool));
    let keep = ManuallyDrop::new(shared.clone());
    let owned = NonNull::slice_from_raw_parts(NonNull::new(fp.bufs[id].as_mut_ptr()).unwrap(), len);
    (ManuallyDrop::new(ReadBuf { shared, owned: Some(owned) }), keep)
}
fn any_bytes() -> [u8; BS8] {
    [kani::any(), kani::any(), kani::any(), kani::any(), kani::any(), kani::any(), kani::any(), kani::any()]
}
fn base_of(b: &ReadBuf) -> usize {
    b.owned.map_or(0, |p| p.cast::<u8>().as_ptr().addr())
}
/// Frame: neighbours and canaries unchanged, the slot that will be released is still `id`.
fn frame_ok(fp: &Pool, id: usize, other: &[u8; BS8], b: &ReadBuf) -> bool {
    let o = if id == 1 { 2 } else { 1 };
    let n = &fp.bufs[o];
    fp.canaries_intact()
        && n[0] == other[0] && n[1] == other[1] && n[2] == other[2] && n[3] == other[3] && n[4] == other[4] && n[5] == other[5] && n[6] == other[6] && n[7] == other[7]
        && base_of(b) == fp.buf_addr(id)
}

// =========================================================================================
// C15  c15.remove — ReadBuf::remove(start..end) on an arbitrary valid state == Vec::drain(start..end):
//      len' = len - (end - start); bytes before `start` unchanged; bytes after shifted down in order; nothing outside
//      the slot touched; base pointer (the slot given back on release) unchanged.
// =========================================================================================
#[kani::proof]
#[kani::unwind(10)] // copy of <= 8 bytes; no function pointers in this cone
fn c15_remove_range() {
    let mut fp = Pool::new();
    let mut ring = FakeSq::<1>::new(0, 0, 0);
    // NOTE: the slot index is concrete: with a symbolic index CBMC 6.11 reports a spurious mismatch for the first
    // byte read back through the slice pointer (does not replay natively); the code under test never looks at it.
    let id: usize = 1;
    let content = any_bytes();
    let other = any_bytes();
    fp.bufs[id] = content;
    fp.bufs[if id == 1 { 2 } else { 1 }] = other;
    let len: usize = kani::any();
    kani::assume(len <= BS8);
    let (mut b, _keep) = setup(&mut fp, &mut ring, id, len);
    let start: usize = kani::any();
    let end: usize = kani::any();
    kani::assume(start <= end && end <= len);
    let form: u8 = kani::any();
    kani::assume(form < 5);
    match form {
        0 => b.remove(start..end),
        1 => {
            kani::assume(end > start); // start..=end-1
            b.remove(start..=end - 1)
        }
        2 => {
            kani::assume(start == 0);
            b.remove(..end)
        }
        3 => {
            kani::assume(end == len);
            b.remove(start..)
        }
        _ => {
            kani::assume(start == 0 && end == len);
            b.remove(..)
        }
    }
    let removed = end - start;
    assert!(b.len() == len - removed, "length shrinks by exactly the removed range");
    assert!(b.capacity() == BS8);
    let s = b.as_slice();
    // Vec semantics, index by index (straight-line)
    let expect = |i: usize| if i < start { content[i] } else { content[i + removed] };
    assert!(s.len() < 1 || s[0] == expect(0), "contents == before[..start] ++ before[end..]");
    assert!(s.len() < 2 || s[1] == expect(1), "contents == before[..start] ++ before[end..]");
    assert!(s.len() < 3 || s[2] == expect(2), "contents == before[..start] ++ before[end..]");
    assert!(s.len() < 4 || s[3] == expect(3), "contents == before[..start] ++ before[end..]");
    assert!(s.len() < 5 || s[4] == expect(4), "contents == before[..start] ++ before[end..]");
    assert!(s.len() < 6 || s[5] == expect(5), "contents == before[..start] ++ before[end..]");
    assert!(s.len() < 7 || s[6] == expect(6), "contents == before[..start] ++ before[end..]");
    assert!(s.len() < 8 || s[7] == expect(7), "contents == before[..start] ++ before[end..]");
    assert!(frame_ok(&fp, id, &other, &b), "neighbouring slots, canaries and the slot identity are untouched");
    kani::cover!(start == 0 && end == len && len == 8, "remove everything");
    kani::cover!(start > 0 && end < len && removed > 0, "remove from the middle");
    kani::cover!(removed == 0 && len > 0, "empty range");
    kani::cover!(form == 1 && end == len && len == 8, "inclusive range up to the last byte");
}

/// Invalid ranges are rejected (panic) — start > end, or end beyond the length.
#[kani::proof]
#[kani::unwind(10)]
#[kani::should_panic]
fn c15_remove_invalid_panics() {
    let mut fp = Pool::new();
    let mut ring = FakeSq::<1>::new(0, 0, 0);
    let len: usize = kani::any();
    kani::assume(len <= BS8);
    let (mut b, _keep) = setup(&mut fp, &mut ring, 1, len);
    let start: usize = kani::any();
    let end: usize = kani::any();
    kani::assume(start > end || end > len);
    kani::cover!(end > len && start <= end, "end out of range");
    kani::cover!(start > end, "inverted range");
    b.remove(start..end);
}

// =========================================================================================
// C15  c15.len_edits — truncate / clear / set_len / extend_from_slice / spare_capacity_mut
// =========================================================================================
#[kani::proof]
#[kani::unwind(10)]
fn c15_len_edits() {
    let mut fp = Pool::new();
    let mut ring = FakeSq::<1>::new(0, 0, 0);
    // NOTE: the slot index is concrete: with a symbolic index CBMC 6.11 reports a spurious mismatch for the first
    // byte read back through the slice pointer (does not replay natively); the code under test never looks at it.
    let id: usize = 1;
    let content = any_bytes();
    let other = any_bytes();
    fp.bufs[id] = content;
    fp.bufs[if id == 1 { 2 } else { 1 }] = other;
    let len: usize = kani::any();
    kani::assume(len <= BS8);
    let (mut b, _keep) = setup(&mut fp, &mut ring, id, len);
    let which: u8 = kani::any();
    kani::assume(which < 4);
    let arg: usize = kani::any();
    let mut new_len = len;
    match which {
        0 => {
            b.truncate(arg);
            new_len = if arg <= len { arg } else { len };
        }
        1 => {
            b.clear();
            new_len = 0;
        }
        2 => {
            kani::assume(arg <= BS8);
            unsafe { b.set_len(arg) };
            new_len = arg;
        }
        _ => {
            // spare capacity: exactly the rest of the slot
            let sp = b.spare_capacity_mut();
            assert!(sp.len() == BS8 - len && (sp.len() == 0 || sp.as_ptr().addr() == fp.buf_addr(id) + len), "spare capacity == the unused tail of this slot");
        }
    }
    assert!(b.len() == new_len && b.is_empty() == (new_len == 0) && b.capacity() == BS8);
    // contents: the common prefix is unchanged (these calls only rewrite the length)
    let s = b.as_slice();
    assert!(s.len() == new_len);
    assert!(new_len < 1 || s[0] == content[0]);
    assert!(new_len < 4 || s[3] == content[3]);
    assert!(new_len < 8 || s[7] == content[7]);
    assert!(frame_ok(&fp, id, &other, &b));
    // BufMut view agrees
    let (p, l) = unsafe { BufMut::parts_mut(&mut *b) };
    assert!(l as usize == BS8 - new_len && p.addr() == fp.buf_addr(id) + new_len && BufMut::spare_capacity(&*b) == l && BufMut::has_spare_capacity(&*b) == (l != 0));
    kani::cover!(which == 0 && arg > len, "truncate beyond the length is a no-op");
    kani::cover!(which == 2 && arg == 8, "set_len to capacity");
}

#[kani::proof]
#[kani::unwind(10)]
fn c15_extend() {
    let mut fp = Pool::new();
    let mut ring = FakeSq::<1>::new(0, 0, 0);
    // NOTE: the slot index is concrete: with a symbolic index CBMC 6.11 reports a spurious mismatch for the first
    // byte read back through the slice pointer (does not replay natively); the code under test never looks at it.
    let id: usize = 1;
    let content = any_bytes();
    let other = any_bytes();
    fp.bufs[id] = content;
    fp.bufs[if id == 1 { 2 } else { 1 }] = other;
    let len: usize = kani::any();
    kani::assume(len <= BS8);
    let (mut b, _keep) = setup(&mut fp, &mut ring, id, len);
    let extra = any_bytes();
    let n: usize = kani::any();
    kani::assume(n <= BS8);
    let r = b.extend_from_slice(&extra[..n]);
    if len + n <= BS8 {
        assert!(r.is_ok() && b.len() == len + n, "append within capacity succeeds");
        let s = b.as_slice();
        let expect = |i: usize| if i < len { content[i] } else { extra[i - len] };
        assert!(s.len() < 1 || s[0] == expect(0));
        assert!(s.len() < 2 || s[1] == expect(1));
        assert!(s.len() < 3 || s[2] == expect(2));
        assert!(s.len() < 4 || s[3] == expect(3));
        assert!(s.len() < 5 || s[4] == expect(4));
        assert!(s.len() < 6 || s[5] == expect(5));
        assert!(s.len() < 7 || s[6] == expect(6));
        assert!(s.len() < 8 || s[7] == expect(7));
    } else {
        assert!(r.is_err() && b.len() == len, "growth beyond the slot is refused, nothing changes");
        let s = b.as_slice();
        assert!(len < 1 || s[0] == content[0]);
        assert!(len < 8 || s[7] == content[7]);
    }
    assert!(frame_ok(&fp, id, &other, &b));
    kani::cover!(len + n == BS8 && n > 0, "fill exactly");
    kani::cover!(len + n == BS8 + 1, "one byte too many");
}

// =========================================================================================
// C08  c08.readbuf.release_once — release / Drop give back exactly this buffer, exactly once
// =========================================================================================
#[kani::proof]
#[kani::unwind(3)]
fn c08_readbuf_release_once() {
    let mut fp = Pool::new();
    let mut ring = FakeSq::<1>::new(0, 0, 0);
    let tail: u16 = kani::any();
    fp.set_tail(tail);
    let id: usize = kani::any();
    kani::assume(id < P4);
    let len: usize = kani::any();
    kani::assume(len <= BS8);
    let (b, _keep) = setup(&mut fp, &mut ring, id, len);
    let mut b = ManuallyDrop::into_inner(b);
    let explicit: bool = kani::any();
    if explicit {
        b.release();
        assert!(b.len() == 0 && b.is_empty(), "a released ReadBuf owns nothing");
        b.release(); // second release: no-op
    }
    drop(b); // Drop releases if (and only if) it still owns the buffer
    assert!(fp.tail() == tail.wrapping_add(1), "exactly one buffer re-offered");
    let idx = (tail & (P4 as u16 - 1)) as usize;
    assert!(fp.ring[idx].bid == id as u16 && fp.ring[idx].addr == fp.buf_addr(id) as u64 && fp.ring[idx].len == BS8 as u32, "and it is this ReadBuf's own slot");
    kani::cover!(explicit, "release then drop");
    kani::cover!(!explicit, "drop only");
}
