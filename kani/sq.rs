//! Harnesses for `src/io_uring/sq.rs` (child module of `io_uring::sq`).
#![allow(dead_code, unused, static_mut_refs)]

use super::*;
use crate::io_uring::verif_uring::{self as vu, FakeSq, ring_inv};
use crate::verif_env as env;
use std::mem::ManuallyDrop;
use std::sync::atomic::AtomicU32;

pub(crate) const SQE_SIZE: usize = 64;

/// An entry as 8 machine words; `W` compares word by word (no memcmp loop for CBMC to unwind).
#[derive(Copy, Clone)]
pub(crate) struct W(pub [u64; 8]);
impl PartialEq for W {
    fn eq(&self, o: &W) -> bool {
        let (a, b) = (&self.0, &o.0);
        a[0] == b[0] && a[1] == b[1] && a[2] == b[2] && a[3] == b[3] && a[4] == b[4] && a[5] == b[5] && a[6] == b[6] && a[7] == b[7]
    }
}
pub(crate) const ZERO_W: W = W([0; 8]);
pub(crate) fn sqe_bytes(s: &Submission) -> W {
    W(unsafe { std::mem::transmute_copy(&s.0) })
}
pub(crate) fn any_sqe() -> Submission {
    let b: [u64; 8] = kani::any();
    unsafe { std::mem::transmute(b) }
}
pub(crate) fn zero_sqe() -> Submission {
    unsafe { std::mem::zeroed() }
}
pub(crate) fn subs_of(shared: ManuallyDrop<Shared>) -> ManuallyDrop<Submissions> {
    ManuallyDrop::new(Submissions::new(ManuallyDrop::into_inner(shared)))
}

/// What the harness' fill closure writes: a recognisable, non-NOP entry.
fn expected_filled(op: u8, ud: u64, fd: i32) -> W {
    let mut e = zero_sqe();
    e.0.opcode = op;
    e.0.user_data = ud;
    e.0.fd = fd;
    sqe_bytes(&e)
}

// =========================================================================================
// C04  c04.add.seq.N — sequential contract of Submissions::add for ring size N, all counters
//   Ok  => used < len, slot(tail) == reset∘fill, tail' = tail +w 1, every other slot / head / flags unchanged,
//          the fill closure saw a zeroed entry and the *old* tail (entry complete before publication)
//   Err => nothing changed and used >= len
// =========================================================================================
fn add_seq<const N: usize>() {
    let h: u32 = kani::any();
    let t: u32 = kani::any();
    let len = N as u32;
    kani::assume(ring_inv(h, t, len));
    let kflags: u32 = kani::any();
    let mut ring = FakeSq::<N>::new(h, t, kflags);
    let mut before = [ZERO_W; N];
    let mut i = 0;
    while i < N {
        ring.sqes[i] = any_sqe();
        before[i] = sqe_bytes(&ring.sqes[i]);
        i += 1;
    }
    let subs = subs_of(ring.shared(len, false, false));
    let op: u8 = kani::any();
    let ud: u64 = kani::any();
    let fd: i32 = kani::any();
    kani::assume(op != 0 && ud != 0);
    let tail_ref: *const AtomicU32 = &ring.tail;
    let res = subs.add(|s| {
        assert!(sqe_bytes(s) == ZERO_W, "entry is reset before it is filled");
        assert!(unsafe { (*tail_ref).load(Ordering::SeqCst) } == t, "tail is not published before the entry is filled");
        s.0.opcode = op;
        s.0.user_data = ud;
        s.0.fd = fd;
    });
    let used = t.wrapping_sub(h);
    let h2 = ring.head.load(Ordering::SeqCst);
    let t2 = ring.tail.load(Ordering::SeqCst);
    assert!(h2 == h, "head is never written by the submitter");
    assert!(ring.flags.load(Ordering::SeqCst) == kflags, "kernel flags never written");
    let idx = (t & (len - 1)) as usize;
    match res {
        Ok(()) => {
            assert!(used < len, "accepted only when a slot is free");
            assert!(t2 == t.wrapping_add(1), "tail advanced by exactly one");
            let mut i = 0;
            while i < N {
                if i == idx {
                    assert!(sqe_bytes(&ring.sqes[i]) == expected_filled(op, ud, fd), "slot(tail) holds exactly reset+fill");
                } else {
                    assert!(sqe_bytes(&ring.sqes[i]) == before[i], "other slots untouched");
                }
                i += 1;
            }
        }
        Err(QueueFull) => {
            assert!(used >= len, "QueueFull only when the queue is full");
            assert!(t2 == t, "tail unchanged on QueueFull");
            let mut i = 0;
            while i < N {
                assert!(sqe_bytes(&ring.sqes[i]) == before[i], "no slot written on QueueFull");
                i += 1;
            }
        }
    }
    kani::cover!(res.is_ok() && t <= h && t.wrapping_add(1) != 1, "accepted with counters at/after wrap");
    kani::cover!(res.is_ok() && t.wrapping_add(1) == 0, "tail wraps to 0");
    kani::cover!(res.is_err(), "queue full");
}

#[kani::proof]
#[kani::unwind(4)]
fn c04_add_seq_1() {
    add_seq::<1>();
}
#[kani::proof]
#[kani::unwind(4)]
fn c04_add_seq_2() {
    add_seq::<2>();
}
#[kani::proof]
#[kani::unwind(6)]
fn c04_add_seq_4() {
    add_seq::<4>();
}
#[kani::proof]
#[kani::unwind(10)]
fn c04_add_seq_8() {
    add_seq::<8>();
}

// =========================================================================================
// C04  c04.add.rg.N — rely/guarantee: between the unlocked fullness pre-check and the moment the
//   submission lock is held, other submitters may have appended entries and the kernel may have consumed
//   some (any state satisfying the ring invariant).  Guarantee: the slot written is free in the state seen
//   under the lock, i.e. never one of the unconsumed entries [head1, tail1); invariant re-established.
// =========================================================================================
fn add_rg<const N: usize>() {
    let h0: u32 = kani::any();
    let t0: u32 = kani::any();
    let len = N as u32;
    kani::assume(ring_inv(h0, t0, len));
    let h1: u32 = kani::any();
    let t1: u32 = kani::any();
    kani::assume(ring_inv(h1, t1, len));
    // counters only move forward, by at most what the protocol allows
    let dh = h1.wrapping_sub(h0);
    let dt = t1.wrapping_sub(t0);
    kani::assume(dt <= len && dh <= t0.wrapping_sub(h0).wrapping_add(dt));
    let mut ring = FakeSq::<N>::new(h0, t0, 0);
    let mut before = [ZERO_W; N];
    let mut i = 0;
    while i < N {
        ring.sqes[i] = any_sqe();
        before[i] = sqe_bytes(&ring.sqes[i]);
        i += 1;
    }
    let subs = subs_of(ring.shared(len, false, false));
    unsafe {
        env::E.lock_addr = vu::submissions_lock_addr(subs.shared());
        env::E.lock_kind = env::LK_RING_WORDS;
        env::E.env_head = &ring.head;
        env::E.env_tail = &ring.tail;
        env::E.env_new_head = h1;
        env::E.env_new_tail = t1;
    }
    let op: u8 = kani::any();
    let ud: u64 = kani::any();
    kani::assume(op != 0 && ud != 0);
    let res = subs.add(|s| {
        s.0.opcode = op;
        s.0.user_data = ud;
    });
    let fired = unsafe { env::E.lock_fired } == 1;
    let used0 = t0.wrapping_sub(h0);
    let used1 = t1.wrapping_sub(h1);
    let t2 = ring.tail.load(Ordering::SeqCst);
    let h2 = ring.head.load(Ordering::SeqCst);
    match res {
        Ok(()) => {
            assert!(fired, "an accepted submission went through the lock");
            assert!(used1 < len, "accepted only if a slot is free in the state observed under the lock");
            assert!(t2 == t1.wrapping_add(1) && h2 == h1);
            assert!(ring_inv(h2, t2, len), "invariant re-established");
            // every unconsumed entry [h1, t1) is byte-identical
            let mut k = 0u32;
            while k < len {
                if k < used1 {
                    let idx = (h1.wrapping_add(k) & (len - 1)) as usize;
                    assert!(sqe_bytes(&ring.sqes[idx]) == before[idx], "unconsumed entry never overwritten");
                }
                k += 1;
            }
        }
        Err(QueueFull) => {
            if fired {
                assert!(used1 >= len, "under the lock QueueFull only when full");
                assert!(t2 == t1 && h2 == h1);
            } else {
                assert!(used0 >= len, "pre-check QueueFull only when full");
                assert!(t2 == t0 && h2 == h0);
            }
            let mut i = 0;
            while i < N {
                assert!(sqe_bytes(&ring.sqes[i]) == before[i]);
                i += 1;
            }
        }
    }
    kani::cover!(fired && used0 < len && used1 == len, "queue filled up between pre-check and lock");
    kani::cover!(fired && res.is_ok() && t1 > 0x8000_0000 && h1 > 0x8000_0000, "accepted at large counter values");
    kani::cover!(!fired, "rejected by the pre-check");
}

#[kani::proof]
#[kani::unwind(4)]
fn c04_add_rg_1() {
    add_rg::<1>();
}
#[kani::proof]
#[kani::unwind(4)]
fn c04_add_rg_2() {
    add_rg::<2>();
}
#[kani::proof]
#[kani::unwind(6)]
fn c04_add_rg_4() {
    add_rg::<4>();
}

// NOTE (c04.add.order): the statement order "fill the entry, then publish the tail" is part of
// c04.add.seq.* (the fill closure observes the old tail and a zeroed entry; the final state has both).
// The SeqCst fence between them cannot be observed: stubbing core::sync::atomic::fence makes Kani 0.68
// mis-compile the caller (Result discriminant becomes nondeterministic), so the fence and the hardware
// memory model stay an assumption (DESIGN.md 2.3).

// =========================================================================================
// C06  c06.cancel.encoding — Submissions::cancel(ud) targets exactly `ud`
// =========================================================================================
#[kani::proof]
#[kani::unwind(4)]
fn c06_cancel_encoding() {
    let h: u32 = kani::any();
    let t: u32 = kani::any();
    kani::assume(ring_inv(h, t, 2));
    let mut ring = FakeSq::<2>::new(h, t, 0);
    ring.sqes[0] = any_sqe();
    ring.sqes[1] = any_sqe();
    let subs = subs_of(ring.shared(2, false, false));
    let ud: u64 = kani::any();
    let res = subs.cancel(ud);
    if res.is_ok() {
        let idx = (t & 1) as usize;
        let mut e = zero_sqe();
        e.0.opcode = libc::IORING_OP_ASYNC_CANCEL as u8;
        e.0.__bindgen_anon_2 = libc::io_uring_sqe__bindgen_ty_2 { addr: ud };
        e.0.user_data = cq::CANCEL_USER_DATA;
        e.0.flags = libc::IOSQE_CQE_SKIP_SUCCESS;
        assert!(sqe_bytes(&ring.sqes[idx]) == sqe_bytes(&e), "cancel request: ASYNC_CANCEL, addr = target user_data, reserved user_data, skip-success, rest zero");
        assert!(ring.tail.load(Ordering::SeqCst) == t.wrapping_add(1));
    } else {
        assert!(t.wrapping_sub(h) >= 2);
        assert!(ring.tail.load(Ordering::SeqCst) == t);
    }
    kani::cover!(res.is_ok(), "cancel queued");
    kani::cover!(res.is_err(), "queue full: no cancel");
}

// =========================================================================================
// C11  c11.wake.* — SubmissionQueue::wake
// =========================================================================================
fn expected_wake_sqe(ring_fd: i32) -> W {
    let mut e = zero_sqe();
    e.0.opcode = libc::IORING_OP_MSG_RING as u8;
    e.0.fd = ring_fd;
    e.0.__bindgen_anon_2 = libc::io_uring_sqe__bindgen_ty_2 { addr: u64::from(libc::IORING_MSG_DATA) };
    e.0.__bindgen_anon_1 = libc::io_uring_sqe__bindgen_ty_1 { off: cq::WAKE_USER_DATA };
    e.0.user_data = WAKE_USER_DATA;
    sqe_bytes(&e)
}

/// No poll in progress (or already awoken): only the flag is set — no ring message, no system call.
#[kani::proof]
#[kani::unwind(3)]
fn c11_wake_not_polling() {
    let h: u32 = kani::any();
    let t: u32 = kani::any();
    kani::assume(ring_inv(h, t, 2));
    let mut ring = FakeSq::<2>::new(h, t, 0);
    let single_issuer: bool = kani::any();
    let subs = subs_of(ring.shared(2, false, single_issuer));
    let s0: u8 = kani::any();
    kani::assume(s0 == 0 || s0 == 2 || s0 == 3);
    let p = vu::polling_raw(subs.shared());
    if s0 & 1 != 0 {
        p.set_polling(true);
    }
    if s0 & 2 != 0 {
        p.wake();
    }
    env::skip_wake_blocked_futures();
    let r = subs.wake();
    assert!(r.is_ok());
    assert!(unsafe { env::E.enter_n } == 0 && unsafe { env::E.reg_n } == 0, "no system call");
    assert!(ring.tail.load(Ordering::SeqCst) == t, "no ring message");
    assert!(crate::verif_lib::polling_state_raw(p) == s0 | 2, "awoken recorded: the next/current poll will not block");
    kani::cover!(s0 == 0, "idle ring");
    kani::cover!(s0 == 3, "already awoken while polling");
}

/// A poll is in progress: exactly one MSG_RING{WAKE_USER_DATA} reaches the kernel (the enter after the add
/// that succeeded), retrying while the queue is full.
#[kani::proof]
#[kani::unwind(3)]
fn c11_wake_polling() {
    let h: u32 = kani::any();
    let t: u32 = kani::any();
    kani::assume(ring_inv(h, t, 2));
    let mut ring = FakeSq::<2>::new(h, t, 0);
    ring.register_with_kernel();
    let subs = subs_of(ring.shared(2, false, false));
    vu::polling_raw(subs.shared()).set_polling(true);
    let used = t.wrapping_sub(h);
    let full = used == 2;
    // first enter: the kernel consumes everything that was queued (SUBMIT_ALL); second enter likewise
    unsafe {
        env::E.enter_consume[0] = if full { 2 } else { used + 1 };
        env::E.enter_ret[0] = env::E.enter_consume[0] as i32;
        env::E.enter_consume[1] = 1;
        env::E.enter_ret[1] = 1;
    }
    env::skip_wake_blocked_futures();
    let r = subs.wake();
    assert!(r.is_ok());
    let t2 = ring.tail.load(Ordering::SeqCst);
    assert!(t2 == t.wrapping_add(1), "exactly one wake message queued");
    let idx = (t & 1) as usize;
    assert!(sqe_bytes(&ring.sqes[idx]) == expected_wake_sqe(vu::RING_FD), "MSG_RING to this ring, data = WAKE_USER_DATA, reserved user_data");
    let n = unsafe { env::E.enter_n };
    if full {
        assert!(n == 2, "queue full: enter to make room, then submit the message");
        assert!(unsafe { env::E.enter_saw_sq_tail[1] } == t2, "the message was queued before the last enter");
    } else {
        assert!(n == 1);
        assert!(unsafe { env::E.enter_saw_sq_tail[0] } == t2, "the message was queued before the enter that submits it");
    }
    let call = unsafe { env::E.enters[n - 1] };
    assert!(call.to_submit >= 1 && call.has_ts && call.ts_sec == 0 && call.ts_nsec == 0, "non-blocking submit");
    kani::cover!(full, "queue was full");
    kani::cover!(!full && t < h, "wrapped");
}

/// Single-issuer ring: the message is sent synchronously with io_uring_register(SEND_MSG_RING), nothing is
/// put on the (foreign-thread) submission queue.
#[kani::proof]
#[kani::unwind(3)]
fn c11_wake_single_issuer() {
    let h: u32 = kani::any();
    let t: u32 = kani::any();
    kani::assume(ring_inv(h, t, 2));
    let mut ring = FakeSq::<2>::new(h, t, 0);
    let subs = subs_of(ring.shared(2, false, true));
    vu::polling_raw(subs.shared()).set_polling(true);
    let fail: bool = kani::any();
    unsafe {
        env::E.reg_copy = 64;
        env::E.reg_ret[0] = if fail { -1 } else { 0 };
        env::E.reg_errno[0] = libc::EEXIST;
    }
    env::skip_wake_blocked_futures();
    let r = subs.wake();
    assert!(unsafe { env::E.reg_n } == 1 && unsafe { env::E.enter_n } == 0);
    assert!(ring.tail.load(Ordering::SeqCst) == t, "nothing queued on the ring");
    let call = unsafe { env::E.regs[0] };
    assert!(call.fd == -1 && call.opcode == libc::IORING_REGISTER_SEND_MSG_RING && call.nr_args == 1);
    assert!(W(call.words) == expected_wake_sqe(vu::RING_FD), "the same wake message, sent synchronously");
    assert!(r.is_ok() == !fail);
    std::mem::forget(r);
    kani::cover!(fail, "register refused");
    kani::cover!(!fail, "sent");
}
