//! Harnesses for `src/io/traits.rs` (child module): the pointer/length/initialisation laws of the buffer
//! traits (C14).  Generic wrappers and the tuple/array impls are instantiated with an instrumented buffer `TB`
//! whose pointer, capacity and fill level are fully symbolic (its pointer is never dereferenced).
#![allow(dead_code, unused, static_mut_refs)]

use super::*;

/// Instrumented buffer: a window [base, base+cap) with `len` initialised bytes.
#[derive(Copy, Clone)]
pub(crate) struct TB {
    pub base: usize,
    pub cap: u32,
    pub len: u32,
}
unsafe impl BufMut for TB {
    unsafe fn parts_mut(&mut self) -> (*mut u8, u32) {
        ((self.base.wrapping_add(self.len as usize)) as *mut u8, self.cap - self.len)
    }
    unsafe fn set_init(&mut self, n: usize) {
        assert!(n <= (self.cap - self.len) as usize, "set_init(n) never exceeds the spare capacity that was exposed");
        self.len += n as u32;
    }
    fn spare_capacity(&self) -> u32 {
        self.cap - self.len
    }
}
unsafe impl Buf for TB {
    unsafe fn parts(&self) -> (*const u8, u32) {
        (self.base as *const u8, self.len)
    }
}
pub(crate) fn any_tb() -> TB {
    let t = TB { base: kani::any(), cap: kani::any(), len: kani::any() };
    kani::assume(t.len <= t.cap);
    // the window does not wrap around the address space
    kani::assume(t.base != 0 && t.base.checked_add(t.cap as usize).is_some());
    t
}
fn spare(t: &TB) -> u32 {
    t.cap - t.len
}
fn minu(a: usize, b: usize) -> usize {
    if a < b { a } else { b }
}

// =========================================================================================
// C14  c14.limited.bufmut — LimitedBuf<B: BufMut> for EVERY limit in usize (incl. >= 2^32), every inner buffer
// =========================================================================================
#[kani::proof]
#[kani::unwind(3)]
fn c14_limited_bufmut() {
    let inner = any_tb();
    let limit: usize = kani::any();
    let mut b = LimitedBuf::new(inner, limit);
    let want = minu(spare(&inner) as usize, limit);
    let (ptr, len) = unsafe { b.parts_mut() };
    assert!(ptr.addr() == inner.base.wrapping_add(inner.len as usize), "pointer is the inner buffer's");
    assert!(len as usize == want, "exposed length == min(inner spare capacity, limit)");
    assert!(b.spare_capacity() == len, "spare_capacity() agrees with parts_mut().1");
    assert!(b.has_spare_capacity() == (len != 0), "has_spare_capacity() <=> spare_capacity() != 0");
    // marking n <= len bytes initialised appends exactly n and uses up n of the limit
    let n: usize = kani::any();
    kani::assume(n <= len as usize);
    unsafe { b.set_init(n) };
    let (ptr2, len2) = unsafe { b.parts_mut() };
    assert!(ptr2.addr() == ptr.addr().wrapping_add(n), "the next write continues right after the n bytes");
    assert!(len2 as usize == minu(spare(&inner) as usize - n, limit - n), "limit never exceeded: remaining == min(spare - n, limit - n)");
    let back = b.into_inner();
    assert!(back.len == inner.len + n as u32 && back.base == inner.base && back.cap == inner.cap, "exactly n bytes appended to the inner buffer");
    kani::cover!(limit > u32::MAX as usize && spare(&inner) > 0, "limit above 2^32");
    kani::cover!(limit == 1usize << 32 && spare(&inner) > 0, "limit exactly 2^32");
    kani::cover!(limit < spare(&inner) as usize && n == limit && limit > 0, "limit reached");
}

#[kani::proof]
#[kani::unwind(3)]
fn c14_limited_buf() {
    let inner = any_tb();
    let limit: usize = kani::any();
    let b = LimitedBuf::new(inner, limit);
    let (ptr, len) = unsafe { Buf::parts(&b) };
    let want = minu(inner.len as usize, limit);
    assert!(ptr.addr() == inner.base && len as usize == want, "parts == (inner ptr, min(inner len, limit))");
    assert!(Buf::len(&b) == len as usize, "len() agrees with parts().1");
    assert!(Buf::is_empty(&b) == (len == 0), "is_empty() <=> len() == 0");
    kani::cover!(limit > u32::MAX as usize && inner.len > 0, "limit above 2^32");
    kani::cover!(limit == 0, "zero limit");
}

// =========================================================================================
// C14  c14.tuple.N — tuples of N buffers: iovecs elementwise, totals are sums, set_init(n) fills front to back
//      (macro-generated impls, one per arity: loop-free; buffers >= 4 GiB in total excluded by precondition)
// =========================================================================================
fn check_iovec_mut(v: &IoMutSlice, t: &TB) {
    assert!(unsafe { v.ptr() }.addr() == t.base.wrapping_add(t.len as usize) && v.len() == spare(t) as usize, "iovec i == (ptr_i + len_i, spare_i)");
}
fn check_iovec(v: &IoSlice, t: &TB) {
    assert!(unsafe { v.ptr() }.addr() == t.base && v.len() == t.len as usize, "iovec i == (ptr_i, len_i)");
}
/// Front-to-back distribution: given n bytes left before buffer t, returns what is left after it and checks t.
fn check_filled(before: &TB, after: &TB, left: usize) -> usize {
    let take = minu(left, spare(before) as usize);
    assert!(after.len as usize == before.len as usize + take && after.base == before.base && after.cap == before.cap, "buffer i received min(remaining, spare_i) bytes, in order");
    left - take
}

macro_rules! tuple_harness {
    ($name: ident, $N: expr, $( $i: tt ),+) => {
        #[kani::proof]
        #[kani::unwind(3)]
        fn $name() {
            let orig = ( $( { let _ = $i; any_tb() } ),+ );
            let total: u64 = 0 $( + spare(&orig.$i) as u64 )+;
            let total_len: u64 = 0 $( + orig.$i.len as u64 )+;
            kani::assume(total <= u32::MAX as u64 && total_len <= u32::MAX as u64);
            let mut b = orig;
            let v = unsafe { BufMutSlice::<$N>::as_iovecs_mut(&mut b) };
            $( check_iovec_mut(&v[$i], &orig.$i); )+
            assert!(BufMutSlice::<$N>::total_spare_capacity(&b) as u64 == total, "total_spare_capacity == sum of the iovec lengths");
            assert!(BufMutSlice::<$N>::has_spare_capacity(&b) == (total != 0));
            let r = unsafe { BufSlice::<$N>::as_iovecs(&b) };
            $( check_iovec(&r[$i], &orig.$i); )+
            assert!(BufSlice::<$N>::total_len(&b) as u64 == total_len && BufSlice::<$N>::is_empty(&b) == (total_len == 0));
            let n: usize = kani::any();
            kani::assume(n as u64 <= total);
            unsafe { BufMutSlice::<$N>::set_init(&mut b, n) };
            let mut left = n;
            $( left = check_filled(&orig.$i, &b.$i, left); )+
            assert!(left == 0, "exactly n bytes marked initialised in total");
            kani::cover!(n as u64 == total && total > 0, "all buffers filled");
            kani::cover!(n > 0 && spare(&orig.0) == 0, "empty first buffer skipped");
        }
    };
}
tuple_harness!(c14_tuple_2, 2, 0, 1);
tuple_harness!(c14_tuple_3, 3, 0, 1, 2);
tuple_harness!(c14_tuple_4, 4, 0, 1, 2, 3);
tuple_harness!(c14_tuple_5, 5, 0, 1, 2, 3, 4);
tuple_harness!(c14_tuple_6, 6, 0, 1, 2, 3, 4, 5);
tuple_harness!(c14_tuple_7, 7, 0, 1, 2, 3, 4, 5, 6);
tuple_harness!(c14_tuple_8, 8, 0, 1, 2, 3, 4, 5, 6, 7);

// =========================================================================================
// C14  c14.array.N — arrays [B; N] (generic loops over N; N in 1..=3 here, unwinding assertions on)
// =========================================================================================
macro_rules! array_harness {
    ($name: ident, $N: expr, $( $i: tt ),+) => {
        #[kani::proof]
        #[kani::unwind(6)]
        fn $name() {
            let orig: [TB; $N] = [ $( { let _ = $i; any_tb() } ),+ ];
            let total: u64 = 0 $( + spare(&orig[$i]) as u64 )+;
            let total_len: u64 = 0 $( + orig[$i].len as u64 )+;
            kani::assume(total <= u32::MAX as u64 && total_len <= u32::MAX as u64);
            let mut b = orig;
            let v = unsafe { BufMutSlice::<$N>::as_iovecs_mut(&mut b) };
            $( check_iovec_mut(&v[$i], &orig[$i]); )+
            assert!(BufMutSlice::<$N>::total_spare_capacity(&b) as u64 == total);
            assert!(BufMutSlice::<$N>::has_spare_capacity(&b) == (total != 0));
            let r = unsafe { BufSlice::<$N>::as_iovecs(&b) };
            $( check_iovec(&r[$i], &orig[$i]); )+
            assert!(BufSlice::<$N>::total_len(&b) as u64 == total_len && BufSlice::<$N>::is_empty(&b) == (total_len == 0));
            let n: usize = kani::any();
            kani::assume(n as u64 <= total && total > 0);
            unsafe { BufMutSlice::<$N>::set_init(&mut b, n) };
            let mut left = n;
            $( left = check_filled(&orig[$i], &b[$i], left); )+
            assert!(left == 0);
            kani::cover!(n as u64 == total, "all buffers filled");
        }
    };
}
array_harness!(c14_array_1, 1, 0);
array_harness!(c14_array_2, 2, 0, 1);
array_harness!(c14_array_3, 3, 0, 1, 2);

// =========================================================================================
// C14  c14.limited.slice — LimitedBuf over a vectored buffer: iovecs are clamped front to back so that their total
//      is min(total, limit); totals agree; every limit in usize
// =========================================================================================
#[kani::proof]
#[kani::unwind(4)]
fn c14_limited_slice_mut() {
    let orig = (any_tb(), any_tb());
    let total = spare(&orig.0) as u64 + spare(&orig.1) as u64;
    kani::assume(total <= u32::MAX as u64);
    let limit: usize = kani::any();
    let mut b = LimitedBuf::new(orig, limit);
    let v = unsafe { BufMutSlice::<2>::as_iovecs_mut(&mut b) };
    let want0 = minu(spare(&orig.0) as usize, limit);
    let want1 = minu(spare(&orig.1) as usize, limit - want0);
    assert!(v[0].len() == want0 && v[1].len() == want1, "clamped front to back");
    assert!(unsafe { v[0].ptr() }.addr() == orig.0.base.wrapping_add(orig.0.len as usize) && unsafe { v[1].ptr() }.addr() == orig.1.base.wrapping_add(orig.1.len as usize));
    let t = BufMutSlice::<2>::total_spare_capacity(&b);
    assert!(t as usize == want0 + want1, "total_spare_capacity == sum of the clamped iovecs == min(total, limit)");
    assert!(BufMutSlice::<2>::has_spare_capacity(&b) == (t != 0));
    kani::cover!(limit > u32::MAX as usize && total > 0, "limit above 2^32");
    kani::cover!(limit > spare(&orig.0) as usize && (limit as u64) < total, "limit ends inside the second buffer");
}

#[kani::proof]
#[kani::unwind(4)]
fn c14_limited_slice() {
    let orig = (any_tb(), any_tb());
    let total = orig.0.len as u64 + orig.1.len as u64;
    kani::assume(total <= u32::MAX as u64);
    let limit: usize = kani::any();
    let b = LimitedBuf::new(orig, limit);
    let v = unsafe { BufSlice::<2>::as_iovecs(&b) };
    let want0 = minu(orig.0.len as usize, limit);
    let want1 = minu(orig.1.len as usize, limit - want0);
    assert!(v[0].len() == want0 && v[1].len() == want1);
    assert!(BufSlice::<2>::total_len(&b) == want0 + want1);
    assert!(BufSlice::<2>::is_empty(&b) == (want0 + want1 == 0));
    kani::cover!(limit > u32::MAX as usize && total > 0, "limit above 2^32");
}

// =========================================================================================
// C14  c14.vec — Vec<u8>: exposes only its spare capacity, grows by set_len; Buf side is the initialised prefix
// =========================================================================================
#[kani::proof]
#[kani::unwind(12)]
fn c14_vec() {
    let cap: usize = kani::any();
    let len: usize = kani::any();
    kani::assume(cap <= 8 && len <= cap);
    let mut v: Vec<u8> = Vec::with_capacity(cap);
    unsafe { v.set_len(len) };
    let cap = v.capacity();
    let base = v.as_ptr().addr();
    let (p, l) = unsafe { BufMut::parts_mut(&mut v) };
    assert!(p.addr() == base + len && l as usize == cap - len, "parts_mut == the uninitialised tail of the allocation");
    assert!(BufMut::spare_capacity(&v) == l && BufMut::has_spare_capacity(&v) == (l != 0));
    let n: usize = kani::any();
    kani::assume(n <= l as usize);
    unsafe { BufMut::set_init(&mut v, n) };
    assert!(v.len() == len + n && v.as_ptr().addr() == base && v.capacity() == cap, "set_init(n) appends exactly n, no reallocation");
    let (rp, rl) = unsafe { Buf::parts(&v) };
    assert!(rp.addr() == base && rl as usize == len + n && Buf::len(&v) == len + n && Buf::is_empty(&v) == (len + n == 0));
    kani::cover!(cap == 8 && len == 3 && n == 5, "fill to capacity");
    kani::cover!(cap == 0, "no allocation");
}

// =========================================================================================
// C14  c14.bufs — the read-only buffer types: parts == (start of the bytes, number of bytes), len/is_empty agree
// =========================================================================================
fn check_buf<B: Buf>(b: &B, base: usize, len: usize) {
    let (p, l) = unsafe { b.parts() };
    assert!(l as usize == len && (len == 0 || p.addr() == base), "parts() == (own bytes, their length)");
    assert!(b.len() == len && b.is_empty() == (len == 0));
}
static SBYTES: [u8; 4] = *b"abcd";

#[kani::proof]
#[kani::unwind(8)]
fn c14_bufs() {
    let n: usize = kani::any();
    kani::assume(n <= 4);
    let s: &'static [u8] = &SBYTES[..n];
    check_buf(&s, s.as_ptr().addr(), n);
    let sb = StaticBuf::from(s);
    check_buf(&sb, s.as_ptr().addr(), n);
    let st: &'static str = unsafe { std::str::from_utf8_unchecked(s) };
    check_buf(&st, s.as_ptr().addr(), n);
    let bx: Box<[u8]> = Box::from(s);
    check_buf(&bx, bx.as_ptr().addr(), n);
    let cow: Cow<'static, [u8]> = Cow::Borrowed(s);
    check_buf(&cow, s.as_ptr().addr(), n);
    let cows: Cow<'static, str> = Cow::Borrowed(st);
    check_buf(&cows, s.as_ptr().addr(), n);
    kani::cover!(n == 0, "empty");
    kani::cover!(n == 4, "full");
}

// =========================================================================================
// C14  c14.counting — the byte-counting wrapper (ReadNBuf, used by read_n / recv_n and their vectored forms) is
//   transparent: pointer/length pairs, capacities and the hidden request form (`parts`) are the inner buffer's, marking n
//   bytes initialised appends exactly n to the inner buffer(s) and records n.
// =========================================================================================
#[kani::proof]
#[kani::unwind(3)]
fn c14_counting() {
    let inner = any_tb();
    let mut b = crate::io::ReadNBuf { buf: inner, last_read: kani::any() };
    let (ptr, len) = unsafe { BufMut::parts_mut(&mut b) };
    assert!(ptr.addr() == inner.base.wrapping_add(inner.len as usize) && len == spare(&inner), "pair is the inner buffer's spare part");
    assert!(BufMut::spare_capacity(&b) == len && BufMut::has_spare_capacity(&b) == (len != 0));
    assert!(matches!(BufMut::parts(&mut b), crate::io::BufMutParts::Buf { ptr: p, len: l } if p.addr() == ptr.addr() && l == len), "request form (parts) is the inner buffer's");
    let n: usize = kani::any();
    kani::assume(n <= len as usize);
    unsafe { BufMut::set_init(&mut b, n) };
    assert!(b.last_read == n && b.buf.len == inner.len + n as u32 && b.buf.base == inner.base && b.buf.cap == inner.cap, "exactly n bytes appended, and counted");
    // vectored form over two buffers
    let i0 = any_tb();
    let i1 = any_tb();
    let mut v = crate::io::ReadNBuf { buf: (i0, i1), last_read: kani::any() };
    let iov = unsafe { BufMutSlice::<2>::as_iovecs_mut(&mut v) };
    assert!(iov[0].len() as u32 == spare(&i0) && iov[1].len() as u32 == spare(&i1));
    assert!(spare(&i0) == 0 || unsafe { iov[0].ptr() }.addr() == i0.base + i0.len as usize);
    assert!(spare(&i1) == 0 || unsafe { iov[1].ptr() }.addr() == i1.base + i1.len as usize);
    let tot = spare(&i0) as u64 + spare(&i1) as u64;
    kani::assume(tot <= u32::MAX as u64);
    assert!(BufMutSlice::<2>::total_spare_capacity(&v) as u64 == tot && BufMutSlice::<2>::has_spare_capacity(&v) == (tot != 0));
    let m: usize = kani::any();
    kani::assume(m as u64 <= tot);
    unsafe { BufMutSlice::<2>::set_init(&mut v, m) };
    let first = if m < spare(&i0) as usize { m } else { spare(&i0) as usize };
    assert!(v.last_read == m && v.buf.0.len == i0.len + first as u32 && v.buf.1.len == i1.len + (m - first) as u32, "front to back, exactly m in total, counted");
    kani::cover!(n > 0 && m > spare(&i0) as usize, "spills into the second buffer");
}
