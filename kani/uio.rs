//! Harnesses for `src/io_uring/io.rs` (child module): the kernel-shared buffer ring of ReadBufPool (C08), the
//! I/O request encoders (C13) and a fake-pool builder used by the ReadBuf harnesses (C15).
#![allow(dead_code, unused, static_mut_refs)]

use super::*;
use crate::io_uring::sq::verif_sq::{W, any_sqe, sqe_bytes, subs_of, zero_sqe};
use crate::io_uring::verif_uring::{self as vu, FakeSq, ring_inv};
use crate::verif_env as env;
use crate::verif_lib::sq_from;
use std::mem::ManuallyDrop;
use std::sync::atomic::Ordering;

/// Memory of a fake pool: `P` buffers of `BS` bytes with canary bytes on both sides, and the kernel-shared
/// buffer ring (`P` entries of 16 bytes; the 16-bit tail overlays bytes 14..16 of entry 0, as in the ABI).
#[repr(C, align(16))]
pub(crate) struct FakePool<const P: usize, const BS: usize> {
    pub ring: [libc::io_uring_buf; P],
    pub pre: [u8; 8],
    pub bufs: [[u8; BS]; P],
    pub post: [u8; 8],
}

pub(crate) const CANARY: u8 = 0xC5;

impl<const P: usize, const BS: usize> FakePool<P, BS> {
    pub(crate) fn new() -> FakePool<P, BS> {
        FakePool {
            ring: unsafe { std::mem::zeroed() },
            pre: [CANARY; 8],
            bufs: [[0; BS]; P],
            post: [CANARY; 8],
        }
    }
    /// The real ReadBufPool over this memory (never dropped: its Drop unregisters and deallocates).
    pub(crate) fn pool(&mut self, sq: SubmissionQueue, id: u16) -> ManuallyDrop<ReadBufPool> {
        ManuallyDrop::new(ReadBufPool {
            id,
            sq,
            pool_size: P as u16,
            buf_size: BS as u32,
            bufs_addr: self.bufs.as_mut_ptr().cast(),
            ring_addr: self.ring.as_mut_ptr().cast(),
            tail_mask: (P - 1) as u16,
            reregister_lock: Mutex::new(()),
        })
    }
    pub(crate) fn tail(&self) -> u16 {
        self.ring[0].resv
    }
    pub(crate) fn set_tail(&mut self, t: u16) {
        self.ring[0].resv = t;
    }
    pub(crate) fn buf_addr(&self, i: usize) -> usize {
        self.bufs[i].as_ptr().addr()
    }
    pub(crate) fn canaries_intact(&self) -> bool {
        let a = &self.pre;
        let b = &self.post;
        a[0] == CANARY && a[7] == CANARY && b[0] == CANARY && b[7] == CANARY && a[3] == CANARY && b[4] == CANARY
    }
}

pub(crate) fn lock_addr(p: &ReadBufPool) -> usize {
    std::ptr::from_ref(&p.reregister_lock).addr()
}

pub(crate) const P4: usize = 4;
pub(crate) const BS8: usize = 8;

fn setup<'a>(fp: &mut FakePool<P4, BS8>, ring: &mut FakeSq<1>) -> ManuallyDrop<ReadBufPool> {
    let subs = subs_of(ring.shared(1, false, false));
    let sq = sq_from((*subs).clone());
    fp.pool(sq, 7)
}

fn entry(fp: &FakePool<P4, BS8>, i: usize) -> (u64, u32, u16) {
    (fp.ring[i].addr, fp.ring[i].len, fp.ring[i].bid)
}

// =========================================================================================
// C08  c08.init_release.roundtrip — the kernel-chosen buffer id becomes an owned slice of exactly that slot, and
//   releasing it (whatever its edited length) re-offers exactly that slot: entry (base + id*bs, bs, id) written at
//   tail & mask, tail' = tail +w 1 (every 16-bit tail, incl. the wrap), every other entry and all buffer bytes
//   untouched.
// =========================================================================================
#[kani::proof]
#[kani::unwind(3)]
fn c08_init_release_roundtrip() {
    let mut fp = FakePool::<P4, BS8>::new();
    let mut ring = FakeSq::<1>::new(0, 0, 0);
    let pool = setup(&mut fp, &mut ring);
    let tail: u16 = kani::any();
    fp.set_tail(tail);
    // arbitrary previous ring contents
    let e: [(u64, u32, u16); P4] = [(kani::any(), kani::any(), kani::any()), (kani::any(), kani::any(), kani::any()), (kani::any(), kani::any(), kani::any()), (kani::any(), kani::any(), kani::any())];
    fp.ring[0].addr = e[0].0; fp.ring[0].len = e[0].1; fp.ring[0].bid = e[0].2;
    fp.ring[1].addr = e[1].0; fp.ring[1].len = e[1].1; fp.ring[1].bid = e[1].2;
    fp.ring[2].addr = e[2].0; fp.ring[2].len = e[2].1; fp.ring[2].bid = e[2].2;
    fp.ring[3].addr = e[3].0; fp.ring[3].len = e[3].1; fp.ring[3].bid = e[3].2;
    let id: u16 = kani::any();
    kani::assume((id as usize) < P4);
    let n: u32 = kani::any();
    kani::assume(n as usize <= BS8);
    let owned = unsafe { pool.init_buffer(BufId(id), n) };
    assert!(owned.cast::<u8>().as_ptr().addr() == fp.buf_addr(id as usize) && owned.len() == n as usize, "owned slice == slot `id`, n bytes");
    // the owner may have changed the length (truncate / extend / remove), never the base pointer
    let newlen: usize = kani::any();
    kani::assume(newlen <= BS8);
    let edited = std::ptr::NonNull::slice_from_raw_parts(owned.cast::<u8>(), newlen);
    unsafe { pool.release(edited) };
    let idx = (tail & (P4 as u16 - 1)) as usize;
    assert!(fp.tail() == tail.wrapping_add(1), "tail advanced by exactly one (wrapping)");
    assert!(entry(&fp, idx) == (fp.buf_addr(id as usize) as u64, BS8 as u32, id), "entry at tail & mask re-offers exactly this slot, full size");
    assert!(idx == 0 || entry(&fp, 0) == e[0], "other entries untouched");
    assert!(idx == 1 || entry(&fp, 1) == e[1], "other entries untouched");
    assert!(idx == 2 || entry(&fp, 2) == e[2], "other entries untouched");
    assert!(idx == 3 || entry(&fp, 3) == e[3], "other entries untouched");
    assert!(fp.canaries_intact());
    kani::cover!(tail == u16::MAX, "tail wraps");
    kani::cover!(idx == 0 && id == 3, "entry 0 (shares its last word with the tail)");
    kani::cover!(newlen == 0 && n == 8, "cleared buffer");
}

// =========================================================================================
// C08  c08.release.rg — concurrent releases: whatever other releasers did to the tail before this one got the
//   lock, the entry is written at the tail observed under the lock and the tail advances from there.
// =========================================================================================
#[kani::proof]
#[kani::unwind(3)]
fn c08_release_rg() {
    let mut fp = FakePool::<P4, BS8>::new();
    let mut ring = FakeSq::<1>::new(0, 0, 0);
    let pool = setup(&mut fp, &mut ring);
    let t0: u16 = kani::any();
    let t1: u16 = kani::any();
    fp.set_tail(t0);
    unsafe {
        env::E.lock_addr = lock_addr(&pool);
        env::E.lock_kind = env::LK_U16_WORD;
        env::E.env_u16 = std::ptr::addr_of!(fp.ring[0].resv);
        env::E.env_new_u16 = t1;
    }
    let id: u16 = kani::any();
    kani::assume((id as usize) < P4);
    let owned = unsafe { pool.init_buffer(BufId(id), 3) };
    unsafe { pool.release(owned) };
    assert!(unsafe { env::E.lock_fired } == 1);
    let idx = (t1 & (P4 as u16 - 1)) as usize;
    assert!(fp.tail() == t1.wrapping_add(1), "tail advances from the value seen under the lock");
    assert!(entry(&fp, idx) == (fp.buf_addr(id as usize) as u64, BS8 as u32, id));
    kani::cover!(t1 != t0, "another releaser got in first");
}

// =========================================================================================
// C13/C08  I/O request encoders and result decoders (instrumented buffer TB: symbolic pointer / capacity / length)
// =========================================================================================
use crate::io::verif_io::{TB, any_tb};
use crate::io_uring::net::verif_net::any_kind;
use crate::io_uring::op::verif_op::cflags;

fn any_fd(subs: &crate::io_uring::sq::Submissions) -> (ManuallyDrop<AsyncFd>, i32, fd::Kind) {
    let n: i32 = kani::any();
    kani::assume(n >= 0);
    let kind = any_kind();
    (ManuallyDrop::new(unsafe { AsyncFd::from_raw(n, kind, sq_from(subs.clone())) }), n, kind)
}

/// read(2)/pread(2): fd, buffer = the unused tail of the caller's buffer, offset (u64::MAX = current position)
#[kani::proof]
#[kani::unwind(3)]
fn c13_enc_read() {
    let mut ring = FakeSq::<1>::new(0, 0, 0);
    let subs = subs_of(ring.shared(1, false, false));
    let (afd, n, _kind) = any_fd(&subs);
    let mut buf = any_tb();
    let orig = buf;
    let mut off: u64 = kani::any();
    let off0 = off;
    let mut s = zero_sqe();
    <ReadOp<TB> as FdOp>::fill_submission(&afd, &mut buf, &mut off, &mut s);
    let mut e = zero_sqe();
    e.0.opcode = libc::IORING_OP_READ as u8;
    e.0.fd = n;
    e.0.__bindgen_anon_1 = libc::io_uring_sqe__bindgen_ty_1 { off: off0 };
    e.0.__bindgen_anon_2 = libc::io_uring_sqe__bindgen_ty_2 { addr: orig.base.wrapping_add(orig.len as usize) as u64 };
    e.0.len = orig.cap - orig.len;
    assert!(sqe_bytes(&s) == sqe_bytes(&e), "READ == pread(fd, spare part of the buffer, spare capacity, offset)");
    assert!(off == off0 && buf.len == orig.len);
    // decoding: n bytes were written by the kernel => exactly n bytes appended
    let got: u32 = kani::any();
    kani::assume(got <= orig.cap - orig.len);
    let out = <ReadOp<TB> as FdOp>::map_ok(&afd, buf, (cflags(0), got));
    assert!(out.len == orig.len + got && out.base == orig.base && out.cap == orig.cap, "returned buffer == caller's buffer + the n bytes read");
    kani::cover!(off0 == u64::MAX, "current file position");
    kani::cover!(got == 0, "end of file");
}

/// read into a ReadBufPool buffer: buffer selection by group id, no address; the kernel-chosen buffer id is turned
/// into an owned slice of exactly that slot (C08)
#[kani::proof]
#[kani::unwind(3)]
fn c13_enc_read_pool() {
    let mut fp = FakePool::<P4, BS8>::new();
    let mut ring = FakeSq::<1>::new(0, 0, 0);
    let subs = subs_of(ring.shared(1, false, false));
    let (afd, n, _kind) = any_fd(&subs);
    let gid: u16 = kani::any();
    let pool = fp.pool(sq_from((*subs).clone()), gid);
    let shared = std::sync::Arc::new(ManuallyDrop::into_inner(pool));
    let _keep = ManuallyDrop::new(shared.clone());
    let mut buf = ReadBuf { shared, owned: None };
    let mut off: u64 = kani::any();
    let off0 = off;
    let mut s = zero_sqe();
    <ReadOp<ReadBuf> as FdOp>::fill_submission(&afd, &mut buf, &mut off, &mut s);
    let mut e = zero_sqe();
    e.0.opcode = libc::IORING_OP_READ as u8;
    e.0.fd = n;
    e.0.__bindgen_anon_1 = libc::io_uring_sqe__bindgen_ty_1 { off: off0 };
    e.0.__bindgen_anon_4.buf_group = gid;
    e.0.flags = libc::IOSQE_BUFFER_SELECT;
    assert!(sqe_bytes(&s) == sqe_bytes(&e), "pool read: BUFFER_SELECT from this pool's group, no user address");
    let id: u16 = kani::any();
    kani::assume((id as usize) < P4);
    let got: u32 = kani::any();
    kani::assume(got as usize <= BS8);
    let fl = libc::IORING_CQE_F_BUFFER | ((id as u32) << libc::IORING_CQE_BUFFER_SHIFT);
    let out = <ReadOp<ReadBuf> as FdOp>::map_ok(&afd, buf, (cflags(fl), got));
    assert!(out.owned.is_some());
    let p = out.owned.unwrap();
    assert!(p.cast::<u8>().as_ptr().addr() == fp.buf_addr(id as usize) && p.len() == got as usize, "the ReadBuf owns exactly slot `id`, `n` bytes");
    std::mem::forget(out);
    kani::cover!(id == 3 && got == 8, "last slot, full");
}

/// C08 c08.abandoned.read - a pool read whose future was dropped while in flight still completes in the kernel with
/// a buffer id (IORING_CQE_F_BUFFER); that buffer has left the kernel's ring and nobody owns it, so it must be
/// re-offered.  KNOWN FINDING F10: Shared::update(Dropped)/drop_state discard the completion flags (findings/F10).
#[kani::proof]
#[kani::unwind(3)]
fn c08_abandoned_read() {
    let mut fp = FakePool::<P4, BS8>::new();
    let mut ring = FakeSq::<1>::new(0, 0, 0);
    let subs = subs_of(ring.shared(1, false, false));
    let gid: u16 = kani::any();
    let pool = fp.pool(sq_from((*subs).clone()), gid);
    let shared = std::sync::Arc::new(ManuallyDrop::into_inner(pool));
    let _keep = ManuallyDrop::new(shared.clone());
    let t0: u16 = kani::any();
    fp.set_tail(t0);
    // NOTE: the in-flight ReadBuf owns nothing (owned: None), its Drop is a no-op apart from the Arc count; it is
    // wrapped in ManuallyDrop so that the pool's own teardown (c08.pool.new_drop) stays out of this obligation.
    let buf = ManuallyDrop::new(ReadBuf { shared, owned: None });
    let id: u16 = kani::any();
    kani::assume((id as usize) < P4);
    let got: i32 = kani::any();
    kani::assume(got >= 0 && got as usize <= BS8);
    let fl = libc::IORING_CQE_F_BUFFER | ((id as u32) << libc::IORING_CQE_BUFFER_SHIFT);
    let freed = crate::io_uring::op::verif_op::abandoned_final_completion::<ManuallyDrop<ReadBuf>, u64>(buf, 0, got, fl);
    assert!(freed, "state of the abandoned operation reclaimed");
    assert!(fp.tail() == t0.wrapping_add(1), "buffer delivered to an abandoned operation is re-offered to the kernel");
    kani::cover!(true, "end");
}

/// C10 c10.readnbuf.pool - "for every kind of read buffer": read_n / recv_n wrap the caller's buffer in ReadNBuf; with a
/// pool buffer the first request must be a buffer-select read from the pool's group (exactly what read() submits,
/// c13.enc.read_pool), the kernel-chosen slot becomes the buffer with last_read = n, and the continuation targets the
/// spare part of that same slot.
#[kani::proof]
#[kani::unwind(3)]
fn c10_readnbuf_pool() {
    let mut fp = FakePool::<P4, BS8>::new();
    let mut ring = FakeSq::<1>::new(0, 0, 0);
    let subs = subs_of(ring.shared(1, false, false));
    let (afd, n, _kind) = any_fd(&subs);
    let gid: u16 = kani::any();
    let pool = fp.pool(sq_from((*subs).clone()), gid);
    let shared = std::sync::Arc::new(ManuallyDrop::into_inner(pool));
    let _keep = ManuallyDrop::new(shared.clone());
    let mut buf = crate::io::ReadNBuf { buf: ReadBuf { shared, owned: None }, last_read: 0 };
    let mut off: u64 = kani::any();
    let off0 = off;
    let mut s = zero_sqe();
    <ReadOp<crate::io::ReadNBuf<ReadBuf>> as FdOp>::fill_submission(&afd, &mut buf, &mut off, &mut s);
    let mut e = zero_sqe();
    e.0.opcode = libc::IORING_OP_READ as u8;
    e.0.fd = n;
    e.0.__bindgen_anon_1 = libc::io_uring_sqe__bindgen_ty_1 { off: off0 };
    e.0.__bindgen_anon_4.buf_group = gid;
    e.0.flags = libc::IOSQE_BUFFER_SELECT;
    assert!(sqe_bytes(&s) == sqe_bytes(&e), "read_n with a pool buffer: BUFFER_SELECT from this pool's group, the same request read() makes");
    let id: u16 = kani::any();
    kani::assume((id as usize) < P4);
    let got: u32 = kani::any();
    kani::assume(got >= 1 && got as usize <= BS8);
    let fl = libc::IORING_CQE_F_BUFFER | ((id as u32) << libc::IORING_CQE_BUFFER_SHIFT);
    let mut out = <ReadOp<crate::io::ReadNBuf<ReadBuf>> as FdOp>::map_ok(&afd, buf, (cflags(fl), got));
    assert!(out.last_read == got as usize, "bytes of this read are counted");
    assert!(matches!(out.buf.owned, Some(p) if p.cast::<u8>().as_ptr().addr() == fp.buf_addr(id as usize) && p.len() == got as usize), "owns exactly the slot the kernel chose");
    // continuation (left > got): the spare part of the same slot, no second buffer selection
    let mut s2 = zero_sqe();
    <ReadOp<crate::io::ReadNBuf<ReadBuf>> as FdOp>::fill_submission(&afd, &mut out, &mut off, &mut s2);
    let mut e2 = zero_sqe();
    e2.0.opcode = libc::IORING_OP_READ as u8;
    e2.0.fd = n;
    e2.0.__bindgen_anon_1 = libc::io_uring_sqe__bindgen_ty_1 { off: off0 };
    e2.0.__bindgen_anon_2 = libc::io_uring_sqe__bindgen_ty_2 { addr: (fp.buf_addr(id as usize) + got as usize) as u64 };
    e2.0.len = BS8 as u32 - got;
    assert!(sqe_bytes(&s2) == sqe_bytes(&e2), "continuation reads into the rest of the same slot");
    // the second (ordinary, no buffer flag) read appends behind the first, in the same slot
    let got2: u32 = kani::any();
    kani::assume(got2 <= BS8 as u32 - got);
    let out = <ReadOp<crate::io::ReadNBuf<ReadBuf>> as FdOp>::map_ok(&afd, out, (cflags(0), got2));
    assert!(out.last_read == got2 as usize);
    assert!(matches!(out.buf.owned, Some(p) if p.cast::<u8>().as_ptr().addr() == fp.buf_addr(id as usize) && p.len() == (got + got2) as usize), "repeated read: appended in arrival order, same slot");
    assert!(fp.canaries_intact());
    std::mem::forget(out);
    kani::cover!(got == 8, "slot filled by the first read");
    kani::cover!(got == 1 && id == 3, "short first read into the last slot");
}

/// C13 c13.enc.read_pool_limited - read(pool.get().limit(n)): "same effect as read(2) for every buffer type".  A limited
/// pool buffer must still be a buffer-select read from the pool's group (at most n bytes).
/// KNOWN FINDING F17: LimitedBuf does not forward the hidden BufMut::parts, a zero-length read at address 0 is
/// submitted and the call returns an empty buffer (findings/F17).
#[kani::proof]
#[kani::unwind(3)]
fn c13_enc_read_pool_limited() {
    let mut fp = FakePool::<P4, BS8>::new();
    let mut ring = FakeSq::<1>::new(0, 0, 0);
    let subs = subs_of(ring.shared(1, false, false));
    let (afd, _n, _kind) = any_fd(&subs);
    let gid: u16 = kani::any();
    let pool = fp.pool(sq_from((*subs).clone()), gid);
    let shared = std::sync::Arc::new(ManuallyDrop::into_inner(pool));
    let _keep = ManuallyDrop::new(shared.clone());
    let limit: usize = kani::any();
    kani::assume(limit >= 1);
    let mut buf = ManuallyDrop::new(crate::io::BufMut::limit(ReadBuf { shared, owned: None }, limit));
    let mut off: u64 = kani::any();
    let mut s = zero_sqe();
    <ReadOp<crate::io::LimitedBuf<ReadBuf>> as FdOp>::fill_submission(&afd, &mut buf, &mut off, &mut s);
    assert!(s.0.flags & libc::IOSQE_BUFFER_SELECT != 0 && unsafe { s.0.__bindgen_anon_4.buf_group } == gid, "limited pool buffer: still a buffer-select read from the pool's group");
    kani::cover!(true, "end");
}

/// multishot read: each result's buffer id becomes one ReadBuf owning that slot; no buffer flag => empty ReadBuf
#[kani::proof]
#[kani::unwind(3)]
fn c08_map_multishot_read() {
    let mut fp = FakePool::<P4, BS8>::new();
    let mut ring = FakeSq::<1>::new(0, 0, 0);
    let subs = subs_of(ring.shared(1, false, false));
    let (afd, n, _kind) = any_fd(&subs);
    let gid: u16 = kani::any();
    let pool = fp.pool(sq_from((*subs).clone()), gid);
    let shared = std::sync::Arc::new(ManuallyDrop::into_inner(pool));
    let _keep = ManuallyDrop::new(shared.clone());
    let mut rpool = ManuallyDrop::new(crate::io::ReadBufPool { shared });
    let mut s = zero_sqe();
    <MultishotReadOp as FdIter>::fill_submission(&afd, &mut rpool, &mut (), &mut s);
    let mut e = zero_sqe();
    e.0.opcode = libc::IORING_OP_READ_MULTISHOT as u8;
    e.0.fd = n;
    e.0.__bindgen_anon_4.buf_group = gid;
    e.0.flags = libc::IOSQE_BUFFER_SELECT;
    assert!(sqe_bytes(&s) == sqe_bytes(&e));
    let id: u16 = kani::any();
    kani::assume((id as usize) < P4);
    let got: u32 = kani::any();
    kani::assume(got as usize <= BS8);
    let with_buf: bool = kani::any();
    let fl = if with_buf { libc::IORING_CQE_F_BUFFER | ((id as u32) << libc::IORING_CQE_BUFFER_SHIFT) } else { 0 };
    kani::assume(with_buf || got == 0);
    let out = <MultishotReadOp as FdIter>::map_next(&afd, &rpool, (cflags(fl), got));
    if with_buf {
        let p = out.owned.unwrap();
        assert!(p.cast::<u8>().as_ptr().addr() == fp.buf_addr(id as usize) && p.len() == got as usize, "one ReadBuf per result, owning exactly the kernel-chosen slot");
    } else {
        assert!(out.owned.is_none(), "no buffer consumed: nothing to give back");
    }
    std::mem::forget(out);
    kani::cover!(with_buf, "buffer result");
    kani::cover!(!with_buf, "end of file result");
}

/// write(2)/pwrite(2): the initialised part of the caller's buffer, offset
#[kani::proof]
#[kani::unwind(3)]
fn c13_enc_write() {
    let mut ring = FakeSq::<1>::new(0, 0, 0);
    let subs = subs_of(ring.shared(1, false, false));
    let (afd, n, _kind) = any_fd(&subs);
    let mut buf = any_tb();
    let orig = buf;
    let mut off: u64 = kani::any();
    let off0 = off;
    let mut s = zero_sqe();
    <WriteOp<TB> as FdOp>::fill_submission(&afd, &mut buf, &mut off, &mut s);
    let mut e = zero_sqe();
    e.0.opcode = libc::IORING_OP_WRITE as u8;
    e.0.fd = n;
    e.0.__bindgen_anon_1 = libc::io_uring_sqe__bindgen_ty_1 { off: off0 };
    e.0.__bindgen_anon_2 = libc::io_uring_sqe__bindgen_ty_2 { addr: orig.base as u64 };
    e.0.len = orig.len;
    assert!(sqe_bytes(&s) == sqe_bytes(&e), "WRITE == pwrite(fd, buffer, len, offset)");
    let wrote: u32 = kani::any();
    let (b, cnt) = <WriteOp<TB> as FdOpExtract>::map_ok_extract(&afd, buf, (cflags(0), wrote));
    assert!(cnt == wrote as usize && b.base == orig.base && b.len == orig.len && b.cap == orig.cap, "count as reported; extract returns the caller's buffer unchanged");
    kani::cover!(off0 == u64::MAX, "current file position");
}

/// readv/writev: the iovec array handed to the kernel is the one stored in Resources; count == N
#[kani::proof]
#[kani::unwind(4)]
fn c13_enc_vectored() {
    let mut ring = FakeSq::<1>::new(0, 0, 0);
    let subs = subs_of(ring.shared(1, false, false));
    let (afd, n, _kind) = any_fd(&subs);
    let bufs = (any_tb(), any_tb());
    kani::assume((bufs.0.cap - bufs.0.len) as u64 + (bufs.1.cap - bufs.1.len) as u64 <= u32::MAX as u64);
    let mut b = bufs;
    let iov = unsafe { crate::io::BufMutSlice::<2>::as_iovecs_mut(&mut b) };
    let mut res = (b, iov);
    let mut off: u64 = kani::any();
    let off0 = off;
    let mut s = zero_sqe();
    <ReadVectoredOp<(TB, TB), 2> as FdOp>::fill_submission(&afd, &mut res, &mut off, &mut s);
    let mut e = zero_sqe();
    e.0.opcode = libc::IORING_OP_READV as u8;
    e.0.fd = n;
    e.0.__bindgen_anon_1 = libc::io_uring_sqe__bindgen_ty_1 { off: off0 };
    e.0.__bindgen_anon_2 = libc::io_uring_sqe__bindgen_ty_2 { addr: res.1.as_ptr().addr() as u64 };
    e.0.len = 2;
    assert!(sqe_bytes(&s) == sqe_bytes(&e), "READV: iovec array inside Resources (stable while in flight), 2 entries, offset");
    // write side
    let wb = bufs;
    let wiov = unsafe { crate::io::BufSlice::<2>::as_iovecs(&wb) };
    let mut wres = (wb, wiov);
    let mut s2 = zero_sqe();
    <WriteVectoredOp<(TB, TB), 2> as FdOp>::fill_submission(&afd, &mut wres, &mut off, &mut s2);
    let mut e2 = zero_sqe();
    e2.0.opcode = libc::IORING_OP_WRITEV as u8;
    e2.0.fd = n;
    e2.0.__bindgen_anon_1 = libc::io_uring_sqe__bindgen_ty_1 { off: off0 };
    e2.0.__bindgen_anon_2 = libc::io_uring_sqe__bindgen_ty_2 { addr: wres.1.as_ptr().addr() as u64 };
    e2.0.len = 2;
    assert!(sqe_bytes(&s2) == sqe_bytes(&e2), "WRITEV likewise");
    // decode: n bytes read are distributed front to back
    let total = (bufs.0.cap - bufs.0.len) + (bufs.1.cap - bufs.1.len);
    let got: u32 = kani::any();
    kani::assume(got <= total);
    let out = <ReadVectoredOp<(TB, TB), 2> as FdOp>::map_ok(&afd, res, (cflags(0), got));
    let first = if got < bufs.0.cap - bufs.0.len { got } else { bufs.0.cap - bufs.0.len };
    assert!(out.0.len == bufs.0.len + first && out.1.len == bufs.1.len + (got - first), "bytes read appended front to back");
    kani::cover!(got == total && total > 0, "both filled");
}

/// splice(2): direction decides which side is this descriptor; offsets, length, flags
#[kani::proof]
#[kani::unwind(3)]
fn c13_enc_splice() {
    let mut ring = FakeSq::<1>::new(0, 0, 0);
    let subs = subs_of(ring.shared(1, false, false));
    let (afd, n, _kind) = any_fd(&subs);
    let target: i32 = kani::any();
    let to: bool = kani::any();
    let off_in: u64 = kani::any();
    let off_out: u64 = kani::any();
    let len: u32 = kani::any();
    let fl: u32 = kani::any();
    let mut args = (target, if to { SpliceDirection::To } else { SpliceDirection::From }, off_in, off_out, len, SpliceFlag(fl));
    let mut s = zero_sqe();
    <SpliceOp as FdOp>::fill_submission(&afd, &mut (), &mut args, &mut s);
    let (fd_in, fd_out) = if to { (n, target) } else { (target, n) };
    let mut e = zero_sqe();
    e.0.opcode = libc::IORING_OP_SPLICE as u8;
    e.0.fd = fd_out;
    e.0.__bindgen_anon_1 = libc::io_uring_sqe__bindgen_ty_1 { off: off_out };
    e.0.__bindgen_anon_2 = libc::io_uring_sqe__bindgen_ty_2 { splice_off_in: off_in };
    e.0.len = len;
    e.0.__bindgen_anon_3 = libc::io_uring_sqe__bindgen_ty_3 { splice_flags: fl };
    e.0.__bindgen_anon_5 = libc::io_uring_sqe__bindgen_ty_5 { splice_fd_in: fd_in };
    assert!(sqe_bytes(&s) == sqe_bytes(&e), "SPLICE == splice(fd_in, off_in, fd_out, off_out, len, flags)");
    kani::cover!(to, "splice to");
    kani::cover!(!to, "splice from");
}

// =========================================================================================
// C08/C12  c08.pool.new_drop — ReadBufPool::new registers a ring of pool_size entries (base + i*bs, bs, i), tail =
//   pool_size, and its Drop unregisters the group and frees both allocations with the layouts used at creation; a
//   refused registration frees the ring allocation and returns the error.  pool_size in {1, 2} (bounded).
// =========================================================================================
#[kani::proof]
#[kani::unwind(4)]
fn c08_pool_new_drop() {
    let mut ring = FakeSq::<1>::new(0, 0, 0);
    let subs = subs_of(ring.shared(1, false, false));
    let pool_size: u16 = if kani::any() { 1 } else { 2 };
    let buf_size: u32 = kani::any();
    kani::assume(buf_size >= 1 && buf_size <= 16);
    let fail: bool = kani::any();
    unsafe {
        env::E.reg_ret[0] = if fail { -1 } else { 0 };
        env::E.reg_errno[0] = libc::ENOMEM;
        env::E.reg_copy = 16;
    }
    let r = ReadBufPool::new(sq_from((*subs).clone()), pool_size, buf_size);
    assert!(unsafe { env::E.reg_n } == 1);
    let call = unsafe { env::E.regs[0] };
    assert!(call.fd == vu::RING_FD && call.opcode == libc::IORING_REGISTER_PBUF_RING && call.nr_args == 1);
    // struct io_uring_buf_reg { u64 ring_addr; u32 ring_entries; u16 bgid; u16 flags; u64 resv[3] }
    assert!(call.words[1] as u32 == pool_size as u32, "ring_entries == pool size");
    match r {
        Ok(pool) => {
            assert!(!fail);
            assert!(call.words[0] == pool.ring_addr.addr() as u64 && (call.words[1] >> 32) as u16 == pool.id && (call.words[1] >> 48) == 0, "the registered ring is this pool's, under its group id");
            let ringp = pool.ring_addr.cast::<libc::io_uring_buf>();
            let e0 = unsafe { ringp.read() };
            assert!(e0.addr == pool.bufs_addr.addr() as u64 && e0.len == buf_size && e0.bid == 0, "entry 0 offers buffer 0");
            if pool_size == 2 {
                let e1 = unsafe { ringp.add(1).read() };
                assert!(e1.addr == pool.bufs_addr.addr() as u64 + buf_size as u64 && e1.len == buf_size && e1.bid == 1, "entry i offers (base + i*bs, bs, i)");
            }
            assert!(e0.resv == pool_size, "tail == pool size: every buffer is offered to the kernel");
            assert!(pool.tail_mask == pool_size - 1 && pool.pool_size == pool_size && pool.buf_size == buf_size);
            drop(pool);
            assert!(unsafe { env::E.reg_n } == 2 && unsafe { env::E.regs[1].opcode } == libc::IORING_UNREGISTER_PBUF_RING, "Drop unregisters the group (both allocations are freed with their creation layouts: CBMC checks dealloc)");
        }
        Err(e) => {
            assert!(fail && e.raw_os_error() == Some(libc::ENOMEM), "registration refused: error returned, ring allocation freed");
            assert!(unsafe { env::E.reg_n } == 1, "nothing to unregister");
            std::mem::forget(e);
        }
    }
    kani::cover!(!fail && pool_size == 2, "two buffers");
    kani::cover!(fail, "registration refused");
}
