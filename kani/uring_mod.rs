//! Harnesses for `src/io_uring/mod.rs` (child module: sees `Shared`'s private fields).
//! Also exports the fake-ring builder used by the other harness modules.
#![allow(dead_code, unused, static_mut_refs)]

use super::*;
use crate::verif_env as env;
use std::mem::ManuallyDrop;
use std::os::fd::FromRawFd;
use std::sync::Arc;

pub(crate) const RING_FD: i32 = 7;

/// Memory of a fake submission ring: the three kernel-shared words and `N` entries.
/// Everything `Shared` points to lives in here; the value must not move after `shared()`.
pub(crate) struct FakeSq<const N: usize> {
    pub head: AtomicU32,
    pub tail: AtomicU32,
    pub flags: AtomicU32,
    pub sqes: [sq::Submission; N],
}

impl<const N: usize> FakeSq<N> {
    pub(crate) fn new(head: u32, tail: u32, flags: u32) -> FakeSq<N> {
        FakeSq {
            head: AtomicU32::new(head),
            tail: AtomicU32::new(tail),
            flags: AtomicU32::new(flags),
            sqes: unsafe { std::mem::zeroed() },
        }
    }

    /// Build the real `Shared` over this memory.  `len` is the ring size the kernel granted
    /// (`len <= N`, power of two).
    pub(crate) fn shared(&mut self, len: u32, kernel_thread: bool, single_issuer: bool) -> ManuallyDrop<Shared> {
        ManuallyDrop::new(Shared {
            submission_ring: ptr::NonNull::dangling(),
            submission_ring_len: 0,
            kernel_flags: ptr::NonNull::from(&self.flags),
            submissions_head: ptr::NonNull::from(&self.head),
            submissions_tail: ptr::NonNull::from(&self.tail),
            submissions: ptr::NonNull::new(self.sqes.as_mut_ptr()).unwrap(),
            submissions_lock: Mutex::new(()),
            submissions_len: len,
            kernel_thread,
            single_issuer,
            polling: PollingState::new(),
            blocked_futures: Mutex::new(Vec::new()),
            rfd: unsafe { OwnedFd::from_raw_fd(RING_FD) },
        })
    }

    /// Tell the kernel model where the ring words are.
    pub(crate) fn register_with_kernel(&self) {
        unsafe {
            env::E.k_sq_head = &self.head;
            env::E.k_sq_tail = &self.tail;
        }
    }

    pub(crate) fn used(&self) -> u32 {
        self.tail.load(Ordering::SeqCst).wrapping_sub(self.head.load(Ordering::SeqCst))
    }
}

/// Representation invariant of a ring: `len` a power of two and `tail -w head <= len`.
pub(crate) fn ring_inv(head: u32, tail: u32, len: u32) -> bool {
    len.is_power_of_two() && tail.wrapping_sub(head) <= len
}

pub(crate) fn submissions_lock_addr(shared: &Shared) -> usize {
    ptr::from_ref(&shared.submissions_lock).addr()
}
pub(crate) fn blocked_len(shared: &Shared) -> usize {
    crate::lock(&shared.blocked_futures).len()
}
pub(crate) fn push_blocked(shared: &Shared, w: task::Waker) {
    crate::lock(&shared.blocked_futures).push(w);
}
pub(crate) fn blocked_id(shared: &Shared, i: usize) -> usize {
    env::waker_id(&crate::lock(&shared.blocked_futures)[i])
}
pub(crate) fn geometry(shared: &Shared) -> (u32, bool, bool, i32) {
    (shared.submissions_len, shared.kernel_thread, shared.single_issuer, shared.rfd.as_raw_fd())
}
pub(crate) fn sq_ptrs(shared: &Shared) -> (usize, usize, usize, usize) {
    (shared.submissions_head.as_ptr().addr(), shared.submissions_tail.as_ptr().addr(), shared.kernel_flags.as_ptr().addr(), shared.submissions.as_ptr().addr())
}
pub(crate) fn polling_raw(shared: &Shared) -> &PollingState {
    &shared.polling
}

// =========================================================================================
// C04  c04.unsubmitted: unsubmitted_submissions() == tail -w head for every pair of counters
// =========================================================================================
#[kani::proof]
#[kani::unwind(3)]
fn c04_unsubmitted() {
    let h: u32 = kani::any();
    let t: u32 = kani::any();
    let len: u32 = kani::any();
    kani::assume(ring_inv(h, t, len));
    let mut ring = FakeSq::<1>::new(h, t, 0);
    let shared = ring.shared(len, false, false);
    let got = shared.unsubmitted_submissions();
    assert!(got == t.wrapping_sub(h), "unsubmitted_submissions == tail -w head");
    assert!(got <= len);
    // frame
    assert!(ring.head.load(Ordering::SeqCst) == h && ring.tail.load(Ordering::SeqCst) == t);
    kani::cover!(t < h, "wrapped counters reachable");
    kani::cover!(t >= h, "unwrapped counters reachable");
}

// =========================================================================================
// C04  c04.enter.count: what Shared::enter hands to io_uring_enter
// =========================================================================================
#[kani::proof]
#[kani::unwind(3)]
fn c04_enter_count() {
    let h: u32 = kani::any();
    let t: u32 = kani::any();
    let len: u32 = kani::any();
    kani::assume(ring_inv(h, t, len));
    let kflags: u32 = kani::any();
    let kernel_thread: bool = kani::any();
    let mut ring = FakeSq::<1>::new(h, t, kflags);
    let shared = ring.shared(len, kernel_thread, false);
    let min_complete: u32 = kani::any();
    let flags: u32 = kani::any();
    let secs: u64 = kani::any();
    let nanos: u32 = kani::any();
    kani::assume(nanos < 1_000_000_000);
    let timeout = if kani::any() { Some(Duration::new(secs, nanos)) } else { None };
    let n: i32 = kani::any();
    kani::assume(n >= 0);
    unsafe {
        env::E.enter_ret[0] = n;
    }
    env::skip_wake_blocked_futures();
    let res = shared.enter(min_complete, flags, timeout);
    assert!(unsafe { env::E.enter_n } == 1, "exactly one io_uring_enter");
    assert!(unsafe { env::E.wbf_calls } == 1, "a successful entry runs wake_blocked_futures");
    let call = unsafe { env::E.enters[0] };
    assert!(call.fd == RING_FD);
    assert!(call.min_complete == min_complete);
    assert!(call.size == size_of::<libc::io_uring_getevents_arg>());
    if kernel_thread {
        assert!(call.to_submit == 0, "SQPOLL: kernel thread submits");
        let want = flags | libc::IORING_ENTER_EXT_ARG | if kflags & libc::IORING_SQ_NEED_WAKEUP != 0 { libc::IORING_ENTER_SQ_WAKEUP } else { 0 };
        assert!(call.flags == want, "SQ_WAKEUP iff NEED_WAKEUP");
    } else {
        assert!(call.to_submit == t.wrapping_sub(h), "to_submit == number of unsubmitted entries");
        assert!(call.flags == flags | libc::IORING_ENTER_EXT_ARG);
    }
    match timeout {
        Some(d) => {
            assert!(call.has_ts);
            assert!(call.ts_sec == i64::try_from(d.as_secs()).unwrap_or(i64::MAX));
            assert!(call.ts_nsec == i64::from(d.subsec_nanos()));
        }
        None => assert!(!call.has_ts),
    }
    assert!(matches!(res, Ok(m) if m == n as u32));
    kani::cover!(kernel_thread && t < h, "sqpoll wrapped");
    kani::cover!(!kernel_thread && t < h && timeout.is_some(), "wrapped with timeout");
}

// =========================================================================================
// C03  c03.blocked.wake: wake_blocked_futures wakes min(available, n), keeps the rest, loses none
//      (list length <= 3: bounded)
// =========================================================================================
fn count_queued(shared: &Shared, left: usize, id: usize) -> usize {
    // straight-line (left <= 2): see env::total_wakes for why harness loops are avoided
    let mut q = 0;
    if left >= 1 && blocked_id(shared, 0) == id {
        q += 1;
    }
    if left >= 2 && blocked_id(shared, 1) == id {
        q += 1;
    }
    q
}

fn blocked_wake_case(nblocked: usize) {
    let h: u32 = kani::any();
    let t: u32 = kani::any();
    let len: u32 = kani::any();
    kani::assume(ring_inv(h, t, len));
    let mut ring = FakeSq::<1>::new(h, t, 0);
    let shared = ring.shared(len, false, false);
    push_blocked(&shared, env::waker(0));
    if nblocked >= 2 {
        push_blocked(&shared, env::waker(1));
    }
    shared.wake_blocked_futures();
    let available = (len - t.wrapping_sub(h)) as usize;
    let expect_woken = if available < nblocked { available } else { nblocked };
    let left = blocked_len(&shared);
    assert!(env::total_wakes() as usize == expect_woken, "wakes min(available, blocked)");
    assert!(left == nblocked - expect_woken, "keeps the rest");
    // nobody lost, nobody woken twice: each waker is either woken once or still queued
    assert!(env::wakes(0) as usize + count_queued(&shared, left, 0) == 1, "each blocked future is woken exactly once or still registered");
    if nblocked >= 2 {
        assert!(env::wakes(1) as usize + count_queued(&shared, left, 1) == 1, "each blocked future is woken exactly once or still registered");
    }
    kani::cover!(available == 0, "no room");
    kani::cover!(available >= nblocked, "room for all");
}

//@waker_stubs
#[kani::proof]
#[kani::unwind(4)] // mem::swap of a Vec is a 3-iteration chunk loop in core
fn c03_blocked_wake_1() {
    blocked_wake_case(1);
}
//@waker_stubs
#[kani::proof]
#[kani::unwind(4)] // mem::swap of a Vec is a 3-iteration chunk loop in core
fn c03_blocked_wake_2() {
    blocked_wake_case(2);
    kani::cover!(env::total_wakes() == 1, "room for exactly one of two");
}

// =========================================================================================
// C03  c03.enter.wakes — every kernel entry that returns Ok to Ring::poll (timeouts and interruptions included) runs
//      wake_blocked_futures exactly once (after the syscall, i.e. seeing the head the kernel advanced); hard errors
//      (returned to the caller) do not.
//      wake_blocked_futures itself is replaced by its contract here and proved by c03.blocked.*.
// =========================================================================================
#[kani::proof]
#[kani::unwind(3)]
fn c03_enter_wakes() {
    let h: u32 = kani::any();
    let t: u32 = kani::any();
    let len: u32 = kani::any();
    kani::assume(ring_inv(h, t, len));
    let mut ring = FakeSq::<1>::new(h, t, 0);
    let shared = ring.shared(len, kani::any(), false);
    let ret: i32 = kani::any();
    kani::assume(ret >= -1);
    let errno: i32 = kani::any();
    kani::assume(errno == libc::ETIME || errno == libc::EINTR || errno == libc::EBUSY || errno == libc::EAGAIN);
    unsafe {
        env::E.enter_ret[0] = ret;
        env::E.enter_errno[0] = errno;
    }
    env::skip_wake_blocked_futures();
    let res = shared.enter(kani::any(), kani::any(), if kani::any() { Some(Duration::ZERO) } else { None });
    let calls = unsafe { env::E.wbf_calls };
    if ret >= 0 {
        assert!(matches!(res, Ok(n) if n == ret as u32));
        assert!(calls >= 1, "successful kernel entry => blocked futures are given a chance");
        assert!(env::evn() == 1 && env::evat(0).0 == env::EV_ENTER, "after the system call");
    } else if errno == libc::ETIME || errno == libc::EINTR {
        assert!(matches!(res, Ok(0)), "timeout / interruption are not errors");
        // From the property, not from the code: a future that found the queue full is woken by a subsequent Ring::poll
        // once room is available EVEN IF NO OPERATION EVER COMPLETES, i.e. also when that poll's kernel entry merely
        // times out (nothing to submit, nothing completed) - the state left behind when the waker was registered just
        // after another thread's entry (or the kernel's submission thread) drained the queue.
        assert!(calls >= 1, "timed-out / interrupted kernel entry => blocked futures are still given their chance");
    } else {
        assert!(matches!(&res, Err(e) if e.raw_os_error() == Some(errno)));
        // (whether blocked futures are also woken on a hard error is not the property's business)
    }
    std::mem::forget(res);
    kani::cover!(ret > 0, "submitted");
    kani::cover!(ret == -1 && errno == libc::ETIME, "timed out");
    kani::cover!(ret == -1 && errno == libc::EBUSY, "hard error");
}

// =========================================================================================
// C12  c12.shared.drop_flushes — handles may outlive the Ring: an AsyncFd dropped after it only QUEUES its CLOSE
//   (c07.drop); when the last handle goes away (Shared::drop) every request still queued is handed to the kernel
//   before the ring is unmapped and closed, so no descriptor is left behind.  (F16)
// =========================================================================================
//@waker_stubs
#[kani::proof]
#[kani::unwind(6)] // the mapping ledger (4 entries) is searched by munmap; the fake ring's memory is not in it
#[kani::stub(std::os::fd::OwnedFd::drop, crate::verif_env::owned_fd_drop)]
fn c12_shared_drop_flushes() {
    let h: u32 = kani::any();
    let t: u32 = kani::any();
    let len: u32 = kani::any();
    kani::assume(ring_inv(h, t, len));
    let kflags: u32 = kani::any();
    let kernel_thread: bool = kani::any();
    let mut ring = FakeSq::<1>::new(h, t, kflags);
    let shared = ring.shared(len, kernel_thread, false);
    let ret: i32 = kani::any();
    kani::assume(ret >= -1);
    unsafe {
        env::E.enter_ret[0] = ret;
        env::E.enter_errno[0] = libc::EBUSY;
    }
    env::skip_wake_blocked_futures();
    env::real_shared_drop();
    drop(ManuallyDrop::into_inner(shared));
    let queued = t.wrapping_sub(h);
    if queued != 0 {
        assert!(unsafe { env::E.enter_n } >= 1, "requests still queued when the last handle is dropped are handed to the kernel");
        let call = unsafe { env::E.enters[0] };
        assert!(call.fd == RING_FD);
        if kernel_thread {
            assert!(call.flags & libc::IORING_ENTER_SQ_WAIT != 0, "kernel-thread ring: wait for the submission thread");
        } else {
            assert!(call.to_submit == queued, "all of them");
        }
        assert!(env::evat(0).0 == env::EV_ENTER, "before anything is unmapped or closed");
    }
    assert!(unsafe { env::E.close_n } == 1 && unsafe { env::E.closed[0] } == RING_FD, "ring fd closed exactly once");
    assert!(env::evat(env::evn() - 1).0 == env::EV_CLOSE, "and last");
    kani::cover!(queued != 0 && !kernel_thread && ret == -1, "flush fails: teardown continues");
    kani::cover!(queued != 0 && kernel_thread, "kernel-thread ring");
    kani::cover!(queued == 0, "nothing queued");
}

// =========================================================================================
// ABI view of a submission entry for harness modules outside `io_uring` (whose `libc` module is private).
// =========================================================================================
pub(crate) mod abi {
    use super::super::libc;
    pub(crate) const OP_READ: u8 = libc::IORING_OP_READ as u8;
    pub(crate) const OP_WRITE: u8 = libc::IORING_OP_WRITE as u8;
    pub(crate) const OP_READV: u8 = libc::IORING_OP_READV as u8;
    pub(crate) const OP_WRITEV: u8 = libc::IORING_OP_WRITEV as u8;
    pub(crate) const OP_SEND: u8 = libc::IORING_OP_SEND as u8;
    pub(crate) const OP_SEND_ZC: u8 = libc::IORING_OP_SEND_ZC as u8;
    pub(crate) const OP_SENDMSG: u8 = libc::IORING_OP_SENDMSG as u8;
    pub(crate) const OP_SENDMSG_ZC: u8 = libc::IORING_OP_SENDMSG_ZC as u8;
    pub(crate) const OP_RECV: u8 = libc::IORING_OP_RECV as u8;
    pub(crate) const OP_RECVMSG: u8 = libc::IORING_OP_RECVMSG as u8;
    pub(crate) const FIXED_FILE: u8 = libc::IOSQE_FIXED_FILE;

    /// The fields of io_uring_sqe by ABI position.
    #[derive(Copy, Clone)]
    pub(crate) struct Sqe {
        pub opcode: u8,
        pub flags: u8,
        pub ioprio: u16,
        pub fd: i32,
        pub off: u64,
        pub addr: u64,
        pub len: u32,
        pub op_flags: u32,
        pub user_data: u64,
        pub buf_group: u16,
        pub personality: u16,
        pub file_index: u32,
        pub addr3: u64,
    }
    pub(crate) const ZERO: Sqe = Sqe { opcode: 0, flags: 0, ioprio: 0, fd: 0, off: 0, addr: 0, len: 0, op_flags: 0, user_data: 0, buf_group: 0, personality: 0, file_index: 0, addr3: 0 };

    pub(crate) fn words(e: &Sqe) -> crate::io_uring::sq::verif_sq::W {
        let mut s = crate::io_uring::sq::verif_sq::zero_sqe();
        s.0.opcode = e.opcode;
        s.0.flags = e.flags;
        s.0.ioprio = e.ioprio;
        s.0.fd = e.fd;
        s.0.__bindgen_anon_1 = libc::io_uring_sqe__bindgen_ty_1 { off: e.off };
        s.0.__bindgen_anon_2 = libc::io_uring_sqe__bindgen_ty_2 { addr: e.addr };
        s.0.len = e.len;
        s.0.__bindgen_anon_3 = libc::io_uring_sqe__bindgen_ty_3 { msg_flags: e.op_flags };
        s.0.user_data = e.user_data;
        s.0.__bindgen_anon_4.buf_group = e.buf_group;
        s.0.personality = e.personality;
        s.0.__bindgen_anon_5 = libc::io_uring_sqe__bindgen_ty_5 { file_index: e.file_index };
        s.0.__bindgen_anon_6 = libc::io_uring_sqe__bindgen_ty_6 { __bindgen_anon_1: std::mem::ManuallyDrop::new(libc::io_uring_sqe__bindgen_ty_6__bindgen_ty_1 { addr3: e.addr3, __pad2: [0; 1] }) };
        crate::io_uring::sq::verif_sq::sqe_bytes(&s)
    }
}

// =========================================================================================
// C12/C18  c12.shared.new_drop — Shared::new followed by its Drop: every (address, length) pair that was mapped is
//   unmapped exactly once with the same length, the submission entries first, the ring second, and the ring fd is
//   closed last; a failing second mapping (or its madvise) unmaps the first and closes the fd.  Any kernel-granted
//   size/offset.
// =========================================================================================
#[repr(C, align(64))]
pub(crate) struct MapMem {
    pub a: [u8; 256],
    pub b: [u8; 256],
}

#[kani::proof]
#[kani::unwind(3)]
#[kani::stub(std::os::fd::OwnedFd::drop, crate::verif_env::owned_fd_drop)]
fn c12_shared_new_drop() {
    let mut mem = MapMem { a: [0; 256], b: [0; 256] };
    let mut params: libc::io_uring_params = unsafe { std::mem::zeroed() };
    params.sq_entries = kani::any();
    kani::assume(params.sq_entries == 1 || params.sq_entries == 2 || params.sq_entries == 4);
    params.sq_off.array = kani::any();
    params.sq_off.head = kani::any();
    params.sq_off.tail = kani::any();
    params.sq_off.flags = kani::any();
    kani::assume(params.sq_off.array <= 64 && params.sq_off.head <= 60 && params.sq_off.tail <= 60 && params.sq_off.flags <= 60);
    // the ring words are u32s: the kernel hands out 4-byte aligned offsets (the teardown reads head and tail)
    kani::assume(params.sq_off.head % 4 == 0 && params.sq_off.tail % 4 == 0 && params.sq_off.flags % 4 == 0);
    env::real_shared_drop();
    params.flags = kani::any();
    let fail: [bool; 2] = [kani::any(), kani::any()];
    let fail_adv: [bool; 2] = [kani::any(), kani::any()];
    unsafe {
        env::E.mmap_ret[0] = if fail[0] { std::ptr::null_mut() } else { mem.a.as_mut_ptr().cast() };
        env::E.mmap_ret[1] = if fail[1] { std::ptr::null_mut() } else { mem.b.as_mut_ptr().cast() };
        env::E.madvise_ret[0] = if fail_adv[0] { -1 } else { 0 };
        env::E.madvise_ret[1] = if fail_adv[1] { -1 } else { 0 };
    }
    let rfd = unsafe { OwnedFd::from_raw_fd(1000) };
    let r = Shared::new(rfd, &params);
    let ok = r.is_ok();
    if ok {
        assert!(env::live_maps() == 2 && unsafe { env::E.close_n } == 0);
    }
    drop(r);
    assert!(env::live_maps() == 0 && unsafe { env::E.munmap_bad } == 0, "everything mapped is unmapped with its own address and length");
    assert!(unsafe { env::E.close_n } == 1 && unsafe { env::E.closed[0] } == 1000, "ring fd closed exactly once");
    let n = env::evn();
    assert!(env::evat(n - 1).0 == env::EV_CLOSE, "the ring fd is closed last, after the mappings are gone");
    if ok {
        // mmap, madvise, mmap, madvise | munmap(sqes), munmap(ring), close
        assert!(n == 7 && env::evat(4).0 == env::EV_MUNMAP && env::evat(4).1 == mem.b.as_ptr().addr() as u64 && env::evat(5).0 == env::EV_MUNMAP && env::evat(5).1 == mem.a.as_ptr().addr() as u64);
    }
    kani::cover!(ok, "built then dropped");
    kani::cover!(!ok && unsafe { env::E.mmap_n } == 2, "second mapping failed");
    kani::cover!(!ok && unsafe { env::E.mmap_n } == 1, "first mapping failed");
}
