// Verus unit `multishot`: the real result containers of src/io_uring/op.rs, extracted on every run.
// Contract: Multishot is an unbounded FIFO (C02: every result the kernel posted, in order, no loss, no
// duplication); Singleshot keeps the last non-NOTIF result.
use vstd::prelude::*;

verus! {

pub const IORING_CQE_F_NOTIF: u32 = 8;

// ---- extracted verbatim from src/io_uring/op.rs:383
#[derive(Copy, Clone)]
pub struct CompletionFlags(u32);
// ---- extracted verbatim from src/io_uring/op.rs:362
#[derive(Copy, Clone)]
pub struct CompletionResult {
    flags: CompletionFlags,
    /// The result of an operation; negative is a (negative) errno, positive a
    /// successful result. The meaning is depended on the operation itself.
    result: i32,
}
// ---- extracted verbatim from src/io_uring/op.rs:452
pub struct Multishot(Vec<CompletionResult>);
// ---- extracted verbatim from src/io_uring/op.rs:424
pub struct Singleshot(CompletionResult);

mod libc {
    pub const IORING_CQE_F_NOTIF: u32 = 8;
}

impl Multishot {
    /// Abstract view: the queue of results not yet handed to the consumer, oldest first.
    pub closed spec fn view(&self) -> Seq<CompletionResult> {
        self.0@
    }

// ---- extracted from src/io_uring/op.rs:459 (body sha a366709cf25283b0)
    fn update(&mut self, result: CompletionResult, _p1: u32)
        ensures
            final(self).view() == old(self).view().push(result),
{
        self.0.push(result);
    }

// ---- extracted from src/io_uring/op.rs:465 (body sha cbeda1922af56315)
    fn next(&mut self) -> (r: Option<CompletionResult>)
        ensures
            old(self).view().len() == 0 ==> r.is_none() && final(self).view() == old(self).view(),
            old(self).view().len() > 0 ==> r == Some(old(self).view()[0]) && final(self).view() == old(self).view().skip(1),
{
        if self.0.is_empty() {
            return None;
        }
        Some(self.0.remove(0))
    }

// ---- extracted from src/io_uring/op.rs:474 (body sha d6e90b02a9ac34be)
    fn has_next(&self) -> (r: bool)
        ensures
            r == (self.view().len() != 0),
{
        !self.0.is_empty()
    }
}

impl Singleshot {
    pub closed spec fn view(&self) -> CompletionResult {
        self.0
    }

// ---- extracted from src/io_uring/op.rs:434 (body sha ad34669e74ebdcdf)
    fn update(&mut self, result: CompletionResult, completion_flags: u32)
        ensures
            completion_flags & IORING_CQE_F_NOTIF != 0 ==> final(self).view() == old(self).view(),
            completion_flags & IORING_CQE_F_NOTIF == 0 ==> final(self).view() == result,
{
        if completion_flags & libc::IORING_CQE_F_NOTIF != 0 {
            // Zero copy completed, we can now mark ourselves as done, not
            // overwriting result.
            return;
        }
        self.0 = result;
    }

// ---- extracted from src/io_uring/op.rs:445 (body sha d76c7bb808edad61)
    fn next(&mut self) -> (r: Option<CompletionResult>)
        ensures
            r == Some(old(self).view()),
            final(self).view() == old(self).view(),
{
        Some(self.0)
    }
}

/// C02 composition lemma: starting from any queue `q0`, after the kernel's results `rs` were appended (in order)
/// and `k <= |q0 ++ rs|` of them consumed from the front, the consumer has seen exactly the first k elements of
/// `q0 ++ rs` in order and the queue holds exactly the rest: no loss, no duplication, no reordering.
pub open spec fn fifo_after(q0: Seq<CompletionResult>, rs: Seq<CompletionResult>, k: int) -> Seq<CompletionResult> {
    (q0 + rs).skip(k)
}

proof fn lemma_fifo_push(q0: Seq<CompletionResult>, rs: Seq<CompletionResult>, r: CompletionResult, k: int)
    requires
        0 <= k <= q0.len() + rs.len(),
    ensures
        fifo_after(q0, rs, k).push(r) == fifo_after(q0, rs.push(r), k),
{
    assert((q0 + rs).push(r) == q0 + rs.push(r));
    assert((q0 + rs).skip(k).push(r) == (q0 + rs).push(r).skip(k));
}

proof fn lemma_fifo_pop(q0: Seq<CompletionResult>, rs: Seq<CompletionResult>, k: int)
    requires
        0 <= k < q0.len() + rs.len(),
    ensures
        fifo_after(q0, rs, k)[0] == (q0 + rs)[k],
        fifo_after(q0, rs, k).skip(1) == fifo_after(q0, rs, k + 1),
{
    assert((q0 + rs).skip(k).skip(1) == (q0 + rs).skip(k + 1));
}

} // verus!

fn main() {}

