#!/bin/bash
# confirm_seed.sh <seed dir> <demo cargo-test args...>
# Confirms, in a scratch worktree of /repo (removed afterwards), that the seeded change (1) applies and compiles,
# (2) leaves the repository's own test suite green, (3) makes the demonstration fail, which (4) passes without it.
D=$(realpath "$1"); shift
ID=$(basename "$D")
WT=/tmp/seedchk/$ID
rm -rf "$WT"; git -C /repo worktree prune; git -C /repo worktree add -q --detach "$WT" HEAD || exit 2
cd "$WT" || exit 2
cp /repo/Cargo.lock . 2>/dev/null
run() { timeout 900 cargo test --offline "$@" > "$WT/out.log" 2>&1 < /dev/null; rc=$?; grep -E "^test result|panicked|error(\[|:)" "$WT/out.log" | head -8; return $rc; }
{
echo "== seed $ID against /repo $(git -C /repo log --format=%h -1)"
[ -f "$D/demo.diff" ] && { git apply "$D/demo.diff" || echo "DEMO DOES NOT APPLY"; }
echo "-- demonstration WITHOUT the change (must pass): cargo test --offline $*"
run "$@"; echo "rc=$?"
git apply "$D/patch.diff" || echo "PATCH DOES NOT APPLY"
echo "-- demonstration WITH the change (must fail)"
run "$@"; echo "rc=$?"
[ -f "$D/demo.diff" ] && git apply -R "$D/demo.diff"
echo "-- repository test suite WITH the change only (must pass)"
run --workspace --no-fail-fast; echo "rc=$?"
} > "$D/confirm.log" 2>&1
cd /; git -C /repo worktree remove --force "$WT"
tail -20 "$D/confirm.log"
