#!/bin/bash
# ingest_seed.sh <scratch worktree> <seed id> : copy a sub-agent's change out of its scratch worktree into
# seeded/<id>/ (patch.diff = library change under src/, demo.diff = everything else: tests, Cargo.toml).
WT=$1; ID=$2
D=$(dirname "$(realpath "$0")")/../seeded/$ID
mkdir -p "$D"
cd "$WT" || exit 2
git add -N tests Cargo.toml 2>/dev/null
git diff -- src > "$D/patch.diff"
git diff -- . ':!src' ':!SEED_PATCH.diff' ':!SEED_NOTES.md' ':!Cargo.lock' > "$D/demo.diff"
[ -f SEED_NOTES.md ] && cp SEED_NOTES.md "$D/AGENT_README.md"
wc -l "$D/patch.diff" "$D/demo.diff"
