#!/usr/bin/env python3
"""Regenerate MANIFEST.json from obligations/*.json (one check per claimed property)."""
import json, os, glob
V = os.path.dirname(os.path.dirname(os.path.abspath(__file__)))
props = [json.loads(l) for l in open(os.path.join(V, "properties.jsonl"))]
checks = []
na = []
na_reasons = json.load(open(os.path.join(V, "obligations", "_not_applicable.json"))) if os.path.exists(os.path.join(V, "obligations", "_not_applicable.json")) else {}
for p in props:
    pid = p["id"]
    f = os.path.join(V, "obligations", pid + ".json")
    if not os.path.exists(f):
        na.append({"property_id": pid, "reason": na_reasons.get(pid, "no contract-level check has been built for this property yet (work in progress; see DESIGN.md section 5)")})
        continue
    o = json.load(open(f))
    checks.append({
        "property_id": pid,
        "quick_cmd": "bin/vcheck %s --tier quick" % pid,
        "thorough_cmd": "bin/vcheck %s --tier thorough" % pid,
        "evidence_file": "/verif/evidence/%s.json" % pid,
        "replay_cmd_template": "bin/vcheck --replay {path}",
        "engine": "kani+verus",
        "level_claimed": {"category": o.get("level_category", "proof"), "text": o.get("level_text", ""), "design_ref": o.get("design_ref", "DESIGN.md section 5, " + pid)},
        "level_note": o.get("level_note", ""),
        "technique": o.get("technique", "contract-based deductive verification: Kani/CBMC full-domain contracts on the real functions, Verus on mechanically extracted functions and lemmas"),
    })
m = {
    "version": 1,
    "setup_cmd": "tools/setup.sh",
    "hooks": {
        "guard": "kani (compiler-set cfg; all instrumentation is injected into a scratch copy of /repo at check time, nothing is committed to /repo)",
        "enable": "bin/vcheck copies /repo's working tree to a scratch directory, appends #[cfg(kani)] child modules / hook lines listed in kani/inject.json and runs cargo kani there",
        "baseline_off_cmd": "tools/run_baseline.sh",
        "source_commits": [],
        "add_only": True,
    },
    "engines": [
        {"name": "kani+verus", "path": "bin/vcheck", "serves_properties": [c["property_id"] for c in checks],
         "kind_free_text": "contract-based deductive verification driver: Kani 0.68/CBMC 6.11 harnesses and function contracts on the real crate, Verus 0.2026.09.13 on mechanically extracted functions + lemmas"},
    ],
    "checks": checks,
    "not_applicable": na,
    "notes": "Exit 0 = all obligations discharged (known findings print KNOWN-FINDING), 1 = VIOLATION, 2 = undecided/infrastructure (never an alarm). See DESIGN.md.",
}
json.dump(m, open(os.path.join(V, "MANIFEST.json"), "w"), indent=1)
print("checks:", len(checks), "not_applicable:", len(na))
