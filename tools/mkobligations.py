#!/usr/bin/env python3
"""Single source of truth for the obligation registry: writes obligations/Cxx.json.
Run after editing; then tools/mkmanifest.py."""
import json, os

V = os.path.dirname(os.path.dirname(os.path.abspath(__file__)))

KERNEL = "kernel follows the io_uring ring protocol (ASSUMED model kani/env.rs: sys_enter2 / sys_register / sys_setup)"
SC = "atomics executed sequentially consistently by CBMC; adequacy of Release/Acquire/SeqCst fences on real hardware is NOT verified"
MUTEX = "std::sync::Mutex gives mutual exclusion under real threads (its real code is executed sequentially by CBMC); thread interleavings are covered only as rely/guarantee interference at lock acquisition"
KANIBUG = "Kani 0.68 / CBMC 6.11 themselves (incl. CBMC's built-in errno model)"

def K(id, file, harness, desc, fns, tier="quick", kind="contract", bounded=None, **kw):
    d = {"id": id, "engine": "kani", "file": file, "harness": harness, "desc": desc, "functions": fns, "tier": tier, "kind": kind}
    if bounded:
        d["bounded"] = bounded
    d.update(kw)
    return d

def VV(id, unit, desc, fns, vfns, tier="quick", kind="lemma", **kw):
    d = {"id": id, "engine": "verus", "unit": unit, "desc": desc, "functions": fns, "verus_fns": vfns, "tier": tier, "kind": kind}
    d.update(kw)
    return d

P = {}

U = "io_uring::verif_uring::"
S = "io_uring::sq::verif_sq::"
C = "io_uring::cq::verif_cq::"

P["C04"] = {
    "level_text": "Proof: the functions that implement submission (Shared::unsubmitted_submissions, Submissions::add, Shared::enter, Config::build_sys flags) are checked by CBMC against pre/post contracts for ALL 32-bit head/tail values (incl. wrap-around) on the real code; ring sizes 1,2,4,8 are run exhaustively and the index arithmetic is proved for every power-of-two size by Verus bit-vector lemmas; concurrency is covered as rely/guarantee interference at the submission lock.",
    "level_note": "Assumes: Mutex mutual exclusion, SC atomics (fence/hardware memory model unverified), kernel model for io_uring_enter. Ring sizes > 8 are covered only through the size-generic Verus lemmas.",
    "functions": [
        {"file": "src/io_uring/mod.rs", "fn": r"pub\(crate\) fn unsubmitted_submissions\("},
        {"file": "src/io_uring/mod.rs", "fn": r"pub\(crate\) fn enter\("},
        {"file": "src/io_uring/sq.rs", "fn": r"pub\(crate\) fn add<F>\("},
    ],
    "trusted_base": [KERNEL, SC, MUTEX, KANIBUG],
    "assumptions": ["the SeqCst fence between filling an entry and publishing the tail cannot be observed by CBMC (stubbing core::sync::atomic::fence miscompiles in Kani 0.68): statement order is proved, the fence itself is assumed"],
    "obligations": [
        K("c04.unsubmitted", "uring_mod.rs", U + "c04_unsubmitted", "Shared::unsubmitted_submissions() == tail -w head for every (head, tail, len) with the ring invariant, incl. wrapped counters; frame: ring words unchanged", ["io_uring::Shared::unsubmitted_submissions"]),
        K("c04.enter.count", "uring_mod.rs", U + "c04_enter_count", "Shared::enter passes to_submit == tail -w head (0 and SQ_WAKEUP iff NEED_WAKEUP with SQPOLL), ring fd, EXT_ARG and the timeout, for all counters/flags/timeouts", ["io_uring::Shared::enter"]),
        K("c04.add.seq.1", "sq.rs", S + "c04_add_seq_1", "Submissions::add, ring size 1, all counters: Ok => free slot, slot(tail)==reset+fill, tail+1, all else unchanged, entry complete before publication; Err => nothing changed and full", ["io_uring::sq::Submissions::add", "io_uring::sq::Submission::reset"]),
        K("c04.add.seq.2", "sq.rs", S + "c04_add_seq_2", "same, ring size 2", ["io_uring::sq::Submissions::add"]),
        K("c04.add.seq.4", "sq.rs", S + "c04_add_seq_4", "same, ring size 4", ["io_uring::sq::Submissions::add"]),
        K("c04.add.seq.8", "sq.rs", S + "c04_add_seq_8", "same, ring size 8", ["io_uring::sq::Submissions::add"], tier="thorough"),
        K("c04.add.rg.1", "sq.rs", S + "c04_add_rg_1", "rely/guarantee: any invariant-respecting change of head/tail by other submitters/the kernel between the unlocked pre-check and the lock; guarantee: never writes an unconsumed entry [head,tail), invariant re-established (size 1)", ["io_uring::sq::Submissions::add"], kind="rely-guarantee"),
        K("c04.add.rg.2", "sq.rs", S + "c04_add_rg_2", "same, ring size 2", ["io_uring::sq::Submissions::add"], kind="rely-guarantee"),
        K("c04.add.rg.4", "sq.rs", S + "c04_add_rg_4", "same, ring size 4", ["io_uring::sq::Submissions::add"], kind="rely-guarantee", tier="thorough"),
    ],
}

P["C05"] = {
    "level_text": "Proof: Completions::poll is checked by CBMC on the real code for every 32-bit head value (incl. batches straddling the wrap), every batch size 0..=N for ring sizes N in {1,2,4,8}: processed sequence == published slots in order, each once, nothing beyond tail read, head stored last; the empty-queue path (kernel entry, tail re-read, error paths) likewise; Completion::process is proved to ignore reserved user_data / F_SKIP entries without forming a pointer.",
    "level_note": "Completion::process is replaced by its frame contract (records its argument, touches nothing of the ring) inside the poll obligations via an injected cfg(kani) line; its own behaviour is covered by c05.process.* and the C02 obligations. Assumes the kernel model and SC atomics. Ring sizes > 8 only through the Verus ring lemmas.",
    "functions": [
        {"file": "src/io_uring/cq.rs", "fn": r"pub\(crate\) fn poll\(&mut self, shared: &Shared"},
        {"file": "src/io_uring/cq.rs", "fn": r"unsafe fn process\(&self\)"},
    ],
    "trusted_base": [KERNEL, SC, KANIBUG],
    "assumptions": [],
    "obligations": [
        K("c05.poll.nonempty.1", "cq.rs", C + "c05_poll_nonempty_1", "Completions::poll with 1..=N published completions, ring size 1, every head value: processed == slots head..tail in order, each once; head'==tail; head word unchanged while reading; no kernel entry", ["io_uring::cq::Completions::poll"]),
        K("c05.poll.nonempty.2", "cq.rs", C + "c05_poll_nonempty_2", "same, ring size 2", ["io_uring::cq::Completions::poll"]),
        K("c05.poll.nonempty.4", "cq.rs", C + "c05_poll_nonempty_4", "same, ring size 4", ["io_uring::cq::Completions::poll"]),
        K("c05.poll.nonempty.8", "cq.rs", C + "c05_poll_nonempty_8", "same, ring size 8", ["io_uring::cq::Completions::poll"], tier="thorough"),
        K("c05.poll.empty.1", "cq.rs", C + "c05_poll_empty_1", "empty queue, ring size 1: one kernel entry (min_complete 1, GETEVENTS), tail re-read, exactly the completions published during the wait are processed in order, ETIME/EINTR tolerated, hard errors returned with nothing consumed", ["io_uring::cq::Completions::poll", "io_uring::Shared::enter"]),
        K("c05.poll.empty.2", "cq.rs", C + "c05_poll_empty_2", "same, ring size 2", ["io_uring::cq::Completions::poll", "io_uring::Shared::enter"]),
        K("c05.poll.empty.4", "cq.rs", C + "c05_poll_empty_4", "same, ring size 4", ["io_uring::cq::Completions::poll", "io_uring::Shared::enter"], tier="thorough"),
        K("c05.process.reserved", "cq.rs", C + "c05_process_reserved", "Completion::process: F_SKIP or user_data in 0..=3 (none/wake/cancel-ack with any result/close report) => returns before any pointer is formed from user_data, wakes nothing; all res/flags values", ["io_uring::cq::Completion::process"]),
        K("c05.process.dispatches_rest", "cq.rs", C + "c05_process_dispatches_rest", "Completion::process: every other completion reaches the per-operation dispatch exactly once (no operation completion is swallowed by the filter)", ["io_uring::cq::Completion::process"]),
    ],
}

def main():
    os.makedirs(os.path.join(V, "obligations"), exist_ok=True)
    for pid, p in P.items():
        p = dict(p)
        p["property"] = pid
        json.dump(p, open(os.path.join(V, "obligations", pid + ".json"), "w"), indent=1)
    print("wrote", sorted(P))

if __name__ == "__main__":
    main()
