#!/usr/bin/env python3
"""Single source of truth for the obligation registry: writes obligations/Cxx.json.
Run after editing; then tools/mkmanifest.py."""
import json, os

V = os.path.dirname(os.path.dirname(os.path.abspath(__file__)))

KERNEL = "kernel follows the io_uring ring protocol (ASSUMED model kani/env.rs: sys_enter2 / sys_register / sys_setup)"
SC = "atomics executed sequentially consistently by CBMC; adequacy of Release/Acquire/SeqCst fences on real hardware is NOT verified"
MUTEX = "std::sync::Mutex gives mutual exclusion under real threads (its real code is executed sequentially by CBMC); thread interleavings are covered only as rely/guarantee interference at lock acquisition"
KANIBUG = "Kani 0.68 / CBMC 6.11 themselves (incl. CBMC's built-in errno model)"

def K(id, file, harness, desc, fns, tier="quick", kind="contract", bounded=None, **kw):
    d = {"id": id, "engine": "kani", "file": file, "harness": harness, "desc": desc, "functions": fns, "tier": tier, "kind": kind}
    if bounded:
        d["bounded"] = bounded
    d.update(kw)
    return d

def VV(id, unit, desc, fns, vfns, tier="quick", kind="lemma", **kw):
    d = {"id": id, "engine": "verus", "unit": unit, "desc": desc, "functions": fns, "verus_fns": vfns, "tier": tier, "kind": kind}
    d.update(kw)
    return d

P = {}

U = "io_uring::verif_uring::"
S = "io_uring::sq::verif_sq::"
C = "io_uring::cq::verif_cq::"

P["C04"] = {
    "level_text": "Proof: the functions that implement submission (Shared::unsubmitted_submissions, Submissions::add, Shared::enter, Config::build_sys flags) are checked by CBMC against pre/post contracts for ALL 32-bit head/tail values (incl. wrap-around) on the real code; ring sizes 1,2,4,8 are run exhaustively and the index arithmetic is proved for every power-of-two size by Verus bit-vector lemmas; concurrency is covered as rely/guarantee interference at the submission lock.",
    "level_note": "Assumes: Mutex mutual exclusion, SC atomics (fence/hardware memory model unverified), kernel model for io_uring_enter. Ring sizes > 8 are covered only through the size-generic Verus lemmas.",
    "functions": [
        {"file": "src/io_uring/mod.rs", "fn": r"pub\(crate\) fn unsubmitted_submissions\("},
        {"file": "src/io_uring/mod.rs", "fn": r"pub\(crate\) fn enter\("},
        {"file": "src/io_uring/sq.rs", "fn": r"pub\(crate\) fn add<F>\("},
    ],
    "trusted_base": [KERNEL, SC, MUTEX, KANIBUG],
    "assumptions": ["the SeqCst fence between filling an entry and publishing the tail cannot be observed by CBMC (stubbing core::sync::atomic::fence miscompiles in Kani 0.68): statement order is proved, the fence itself is assumed"],
    "obligations": [
        K("c04.unsubmitted", "uring_mod.rs", U + "c04_unsubmitted", "Shared::unsubmitted_submissions() == tail -w head for every (head, tail, len) with the ring invariant, incl. wrapped counters; frame: ring words unchanged", ["io_uring::Shared::unsubmitted_submissions"]),
        K("c04.enter.count", "uring_mod.rs", U + "c04_enter_count", "Shared::enter passes to_submit == tail -w head (0 and SQ_WAKEUP iff NEED_WAKEUP with SQPOLL), ring fd, EXT_ARG and the timeout, for all counters/flags/timeouts", ["io_uring::Shared::enter"]),
        K("c04.add.seq.1", "sq.rs", S + "c04_add_seq_1", "Submissions::add, ring size 1, all counters: Ok => free slot, slot(tail)==reset+fill, tail+1, all else unchanged, entry complete before publication; Err => nothing changed and full", ["io_uring::sq::Submissions::add", "io_uring::sq::Submission::reset"]),
        K("c04.add.seq.2", "sq.rs", S + "c04_add_seq_2", "same, ring size 2", ["io_uring::sq::Submissions::add"]),
        K("c04.add.seq.4", "sq.rs", S + "c04_add_seq_4", "same, ring size 4", ["io_uring::sq::Submissions::add"]),
        K("c04.add.seq.8", "sq.rs", S + "c04_add_seq_8", "same, ring size 8", ["io_uring::sq::Submissions::add"], tier="thorough"),
        K("c04.add.rg.1", "sq.rs", S + "c04_add_rg_1", "rely/guarantee: any invariant-respecting change of head/tail by other submitters/the kernel between the unlocked pre-check and the lock; guarantee: never writes an unconsumed entry [head,tail), invariant re-established (size 1)", ["io_uring::sq::Submissions::add"], kind="rely-guarantee"),
        K("c04.add.rg.2", "sq.rs", S + "c04_add_rg_2", "same, ring size 2", ["io_uring::sq::Submissions::add"], kind="rely-guarantee"),
        K("c04.add.rg.4", "sq.rs", S + "c04_add_rg_4", "same, ring size 4", ["io_uring::sq::Submissions::add"], kind="rely-guarantee", tier="thorough"),
        VV("c04.ring_lemmas", "ring", "for EVERY power-of-two ring size and every u32 counter: slot index in range; counters < len apart never share a slot (also across the 2^32 wrap); tail -w head is the true count; +1 keeps it in step", ["(arithmetic used by) io_uring::sq::Submissions::add", "io_uring::Shared::unsubmitted_submissions"], ["lemma_slot_in_range", "lemma_slots_distinct", "lemma_wrapping_count", "lemma_advance"]),
    ],
}

P["C05"] = {
    "level_text": "Proof: Completions::poll is checked by CBMC on the real code for every 32-bit head value (incl. batches straddling the wrap), every batch size 0..=N for ring sizes N in {1,2,4,8}: processed sequence == published slots in order, each once, nothing beyond tail read, head stored last; the empty-queue path (kernel entry, tail re-read, error paths) likewise; Completion::process is proved to ignore reserved user_data / F_SKIP entries without forming a pointer.",
    "level_note": "Completion::process is replaced by its frame contract (records its argument, touches nothing of the ring) inside the poll obligations via an injected cfg(kani) line; its own behaviour is covered by c05.process.* and the C02 obligations. Assumes the kernel model and SC atomics. Ring sizes > 8 only through the Verus ring lemmas.",
    "functions": [
        {"file": "src/io_uring/cq.rs", "fn": r"pub\(crate\) fn poll\(&mut self, shared: &Shared"},
        {"file": "src/io_uring/cq.rs", "fn": r"unsafe fn process\(&self\)"},
    ],
    "trusted_base": [KERNEL, SC, KANIBUG],
    "assumptions": [],
    "obligations": [
        K("c05.poll.nonempty.1", "cq.rs", C + "c05_poll_nonempty_1", "Completions::poll with 1..=N published completions, ring size 1, every head value: processed == slots head..tail in order, each once; head'==tail; head word unchanged while reading; no kernel entry", ["io_uring::cq::Completions::poll"]),
        K("c05.poll.nonempty.2", "cq.rs", C + "c05_poll_nonempty_2", "same, ring size 2", ["io_uring::cq::Completions::poll"]),
        K("c05.poll.nonempty.4", "cq.rs", C + "c05_poll_nonempty_4", "same, ring size 4", ["io_uring::cq::Completions::poll"]),
        K("c05.poll.nonempty.8", "cq.rs", C + "c05_poll_nonempty_8", "same, ring size 8", ["io_uring::cq::Completions::poll"], tier="thorough"),
        K("c05.poll.empty.1", "cq.rs", C + "c05_poll_empty_1", "empty queue, ring size 1: one kernel entry (min_complete 1, GETEVENTS), tail re-read, exactly the completions published during the wait are processed in order, ETIME/EINTR tolerated, hard errors returned with nothing consumed", ["io_uring::cq::Completions::poll", "io_uring::Shared::enter"]),
        K("c05.poll.empty.2", "cq.rs", C + "c05_poll_empty_2", "same, ring size 2", ["io_uring::cq::Completions::poll", "io_uring::Shared::enter"]),
        K("c05.poll.empty.4", "cq.rs", C + "c05_poll_empty_4", "same, ring size 4", ["io_uring::cq::Completions::poll", "io_uring::Shared::enter"], tier="thorough"),
        VV("c05.ring_lemmas", "ring", "for EVERY power-of-two ring size: slot index in range; walking head..tail with wrapping increments visits exactly tail -w head distinct slots", ["(arithmetic used by) io_uring::cq::Completions::poll"], ["lemma_slot_in_range", "lemma_slots_distinct", "lemma_walk"]),
        K("c05.process.reserved", "cq.rs", C + "c05_process_reserved", "Completion::process: F_SKIP or user_data in 0..=3 (none/wake/cancel-ack with any result/close report) => returns before any pointer is formed from user_data, wakes nothing; all res/flags values", ["io_uring::cq::Completion::process"]),
        K("c05.process.dispatches_rest", "cq.rs", C + "c05_process_dispatches_rest", "Completion::process: every other completion reaches the per-operation dispatch exactly once (no operation completion is swallowed by the filter)", ["io_uring::cq::Completion::process"]),
    ],
}

O = "io_uring::op::verif_op::"
OPFN = ["io_uring::op::poll_inner", "io_uring::op::poll", "io_uring::op::poll_next"]

def op_obl(ids):
    """Shared catalogue of operation-state-machine obligations (kani/op.rs); a property picks the ones it depends on."""
    cat = {
        "state_new": K("op.state_new", "op.rs", O + "c01_state_new", "State::new: boxed once; user_data == box address | multishot tag, > 3; resources inside the box; Mutex<Shared> at offset 0", ["io_uring::op::State::new", "io_uring::op::State::user_data"]),
        "update.single": K("op.update.single", "op.rs", O + "update_single", "Shared::<Singleshot>::update from Running/Done/Dropped x any completion: Done exactly on the final (no F_MORE) completion; stored result = last non-NOTIF completion; Wake(stored waker) exactly when it becomes done; never Drop from Running/Done; Dropped => Drop iff final, with its own destructor; never drops resources", ["io_uring::op::Shared::update", "io_uring::op::Singleshot::update", "io_uring::cq::Completion::complete"]),
        "update.multi.live": K("op.update.multi.live", "op.rs", O + "update_multi_live", "Shared::<T: IS_MULTISHOT>::update from Running/Done (generic code, instrumented container, 0..3 queued): appends exactly one result last, earlier ones keep position, wakes the stored waker on EVERY completion, Done exactly on the final one", ["io_uring::op::Shared::update"], tier="thorough"),
        "update.multi.dropped": K("op.update.multi.dropped", "op.rs", O + "update_multi_dropped", "Shared::<T: IS_MULTISHOT>::update from Dropped: Ok while F_MORE, Drop{own destructor} on the final completion; nothing freed by update itself", ["io_uring::op::Shared::update"], tier="thorough"),
        "drop.not_started": K("op.drop.not_started", "op.rs", O + "drop_not_started", "OpState::drop, NotStarted: no cancel request, ring untouched; state freed exactly once now; resources dropped exactly once", ["io_uring::op::State::drop", "io_uring::op::drop_state"]),
        "drop.running": K("op.drop.running", "op.rs", O + "drop_running", "OpState::drop, Running: nothing freed, resources not dropped, status Dropped{this op's destructor}; exactly one ASYNC_CANCEL{addr=user_data, CANCEL_USER_DATA, skip-success} iff the queue has room (all counters), other entry untouched", ["io_uring::op::State::drop", "io_uring::sq::Submissions::cancel"]),
        "drop.running.waker": K("op.drop.running.waker", "op.rs", O + "drop_running_with_waker", "same with a waker stored", ["io_uring::op::State::drop"]),
        "drop.done": K("op.drop.done", "op.rs", O + "drop_done", "OpState::drop, Done: no cancel; freed once; resources dropped once", ["io_uring::op::State::drop", "io_uring::op::drop_state"]),
        "drop.done.waker": K("op.drop.done.waker", "op.rs", O + "drop_done_with_waker", "same with a waker stored", ["io_uring::op::State::drop"]),
        "drop.complete": K("op.drop.complete", "op.rs", O + "drop_complete", "OpState::drop, Complete: no cancel; freed once; resources (already moved out) NOT dropped again", ["io_uring::op::State::drop", "io_uring::op::drop_state"]),
        "drop.rg.first": K("op.drop.rg.first_lock", "op.rs", O + "drop_rg_first_lock", "rely/guarantee for OpState::drop: the completion handler processes this op's final completion right before drop takes the op lock => drop sees Done and reclaims the state itself, exactly once", ["io_uring::op::State::drop"], kind="rely-guarantee"),
        "drop.rg.later": K("op.drop.rg.later_lock", "op.rs", O + "drop_rg_later_lock", "rely/guarantee for OpState::drop: interference (final completion processed) at any LATER acquisition of the op lock inside drop - the status check and the Dropped store must happen under one acquisition (no check-then-act window); otherwise the state would be left Dropped with no completion to come", ["io_uring::op::State::drop"], kind="rely-guarantee"),
        "drop_state": K("op.drop_state", "op.rs", O + "drop_state_deferred", "drop_state (the erased destructor process calls with user_data & TAG_MASK): frees the box exactly once and drops the abandoned op's resources exactly once", ["io_uring::op::drop_state"]),
        "poll.not_started": K("op.poll.not_started", "op.rs", O + "poll_not_started", "first poll, all ring counters: Pending; room => exactly one entry == fill_submission output + own user_data, Running, this poll's waker stored; full => NotStarted, waker registered in blocked_futures, ring untouched", OPFN + ["io_uring::sq::Submissions::wait_for_submission"]),
        "poll.running.none": K("op.poll.running.none", "op.rs", O + "poll_running_single_none", "re-poll of a running singleshot (no waker stored, e.g. consumed by a non-final wake): Pending, waker stored, no submission, result untouched", OPFN + ["io_uring::op::set_waker"]),
        "poll.running.same": K("op.poll.running.same", "op.rs", O + "poll_running_single_same", "re-poll with the same waker: Pending, waker still stored", OPFN + ["io_uring::op::set_waker"]),
        "poll.running.other": K("op.poll.running.other", "op.rs", O + "poll_running_single_other", "re-poll with a different waker: the most recent waker replaces the old one", OPFN + ["io_uring::op::set_waker"]),
        "poll.done.ok": K("op.poll.done.ok", "op.rs", O + "poll_done_single_sym_ok", "poll of a Done singleshot, every result >= 0 and flags: Ready(Ok(map_ok(own resources, (flags,result)))), Complete, resources moved out exactly once, no submission", OPFN + ["io_uring::op::CompletionResult::check_result"]),
        "poll.done.restart": K("op.poll.done.restart", "op.rs", O + "poll_done_single_sym_restart", "Done with -EINTR/-ECANCELED: Pending; resources neither moved nor dropped, same address; exactly one new entry byte-identical to the first submission (same fill on same resources/args + user_data); Running, waker stored, stored result cleared; queue full => NotStarted + blocked waker", OPFN),
        "poll.done.err": K("op.poll.done.err", "op.rs", O + "poll_done_single_sym_err", "Done with any other errno in [-4095,-1]: Ready(Err(that errno)) through the fallback; Complete; resources handed over once; never EINTR/ECANCELED reported", OPFN + ["io_uring::op::CompletionResult::check_result"]),
        "poll.complete_panics": K("op.poll.complete_panics", "op.rs", O + "poll_complete_panics", "polling a Complete operation panics: a second value can never be produced", OPFN),
        "poll_next.running": K("op.poll_next.running", "op.rs", O + "poll_next_running", "multishot Running (0..3 queued): head of the queue delivered (Ok/Err), rest keeps order, status unchanged, resources stay; empty => Pending with waker stored", OPFN, tier="thorough"),
        "poll_next.done": K("op.poll_next.done", "op.rs", O + "poll_next_done", "multishot Done: queued results delivered in order; drained => Ready(None) exactly once, Complete, resources dropped exactly once; -EINTR/-ECANCELED as last result => transparent restart with identical request", OPFN, tier="thorough"),
        "process.dropped": K("op.process.dropped", "op.rs", O + "process_single_dropped", "Completion::process on an ABANDONED operation (real code: pointer+tag dispatch, update, erased destructor called through the function pointer): kept alive while F_MORE, on the final completion the state is freed exactly once and its resources dropped exactly once; no waker touched", ["io_uring::cq::Completion::process", "io_uring::op::Shared::update", "io_uring::op::drop_state"]),
        "process.running": K("op.process.running", "op.rs", O + "process_single_running", "Completion::process on a real operation (pointer+tag dispatch): the result reaches exactly that operation (last non-NOTIF), Done iff final, its waker woken exactly once iff final; a second live operation is untouched; nothing freed", ["io_uring::cq::Completion::process", "io_uring::op::Shared::update"]),
    }
    return [dict(cat[i]) for i in ids]

OPTRUST = [KERNEL, SC, MUTEX, KANIBUG,
           "generic operation code is instantiated with an instrumented Op (resource/args types whose Drop bumps ghost counters, an encoder stamping its inputs) and, for IS_MULTISHOT paths, an instrumented fixed-size result container; the concrete per-operation encoders are C13's obligations, the real Multishot container (Vec) is the Verus unit `multishot`",
           "kernel contract: res in [-4095, i32::MAX]; an -EINTR/-ECANCELED result is the final completion of its submission"]

P["C01"] = {
    "level_text": "Proof of the ownership state machine on the real code: for every status and every completion (res, flags) CBMC proves that the boxed operation state (which holds every kernel-shared resource, at a fixed address == user_data) is freed only by OpState::drop when not Running, or by the completion handler on the FINAL completion of an abandoned operation; resources are read/dropped only after the Complete store. Transitions are proved one per harness from arbitrary pre-states, so any interleaving of poll/drop/completion steps is a chain of proved steps.",
    "level_note": "Assumes kernel posts exactly one final (no F_MORE) CQE per accepted SQE and touches the memory only before it; Mutex; SC atomics. Per-operation encoders (pointers placed in each SQE point into Resources) are covered by C13's obligations where built. process on an abandoned op (erased destructor call through a function pointer) is decomposed into update(Dropped)->Drop + drop_state.",
    "functions": [
        {"file": "src/io_uring/op.rs", "fn": r"fn new\(resources: R, args: A\) -> State<T, R, A>"},
        {"file": "src/io_uring/op.rs", "fn": r"unsafe fn drop\(&mut self, sq: &SubmissionQueue\)"},
        {"file": "src/io_uring/op.rs", "fn": r"unsafe fn drop_state<T, R, A>\("},
        {"file": "src/io_uring/op.rs", "fn": r"pub\(super\) fn update\(&mut self, completion: &Completion\)"},
        {"file": "src/io_uring/op.rs", "fn": r"^fn poll_inner<"},
        {"file": "src/io_uring/cq.rs", "fn": r"unsafe fn process\(&self\)"},
    ],
    "trusted_base": OPTRUST,
    "assumptions": ["'static bound on Buf/BufMut/BufSlice/BufMutSlice and the &'fd AsyncFd borrow are type-level (rustc), not re-proved"],
    "obligations": op_obl(["state_new", "update.single", "update.multi.dropped", "drop.not_started", "drop.running", "drop.running.waker", "drop.done", "drop.done.waker", "drop.complete", "drop.rg.first", "drop.rg.later", "drop_state", "poll.done.ok", "poll.done.restart", "poll.done.err", "poll_next.done", "process.running", "process.dropped"]),
}
P["C02"] = {
    "level_text": "Proof: dispatch (Completion::process on real states: pointer + tag, second operation untouched), storage (Shared::update: last-writer except NOTIF; multishot append-in-order) and delivery (poll_inner: head of queue, end-of-stream exactly once, panic on re-poll after completion) are each proved by CBMC on the real functions for all result/flag values and all ring counters; the real Multishot container is proved FIFO for unbounded length by Verus on the extracted functions.",
    "level_note": "Assumes the kernel model; instrumented Op/containers for the generic code; two live operations in the dispatch obligation (frame for any number follows from the pointer dispatch touching only user_data's target).",
    "functions": [
        {"file": "src/io_uring/cq.rs", "fn": r"unsafe fn process\(&self\)"},
        {"file": "src/io_uring/op.rs", "fn": r"pub\(super\) fn update\(&mut self, completion: &Completion\)"},
        {"file": "src/io_uring/op.rs", "fn": r"^fn poll_inner<"},
    ],
    "trusted_base": OPTRUST,
    "assumptions": [],
    "obligations": op_obl(["process.running", "update.single", "update.multi.live", "poll.done.ok", "poll.done.err", "poll.running.none", "poll.complete_panics", "poll_next.running", "poll_next.done"]) + [
        K("c05.process.reserved", "cq.rs", C + "c05_process_reserved", "bookkeeping/padding completions never reach an operation", ["io_uring::cq::Completion::process"]),
        K("c05.process.dispatches_rest", "cq.rs", C + "c05_process_dispatches_rest", "every other completion is dispatched exactly once", ["io_uring::cq::Completion::process"]),
        VV("c02.multi.fifo", "multishot", "the real Multishot container (extracted verbatim): update appends exactly the new result at the back, next returns the oldest and leaves the rest in order, has_next <=> non-empty; UNBOUNDED queue length", ["io_uring::op::Multishot::update", "io_uring::op::Multishot::next", "io_uring::op::Multishot::has_next"], ["Multishot::update", "Multishot::next", "Multishot::has_next"], kind="contract"),
        VV("c02.single.container", "multishot", "the real Singleshot container (extracted verbatim): update keeps the stored result on F_NOTIF and overwrites otherwise; next returns the stored result", ["io_uring::op::Singleshot::update", "io_uring::op::Singleshot::next"], ["Singleshot::update", "Singleshot::next"], kind="contract"),
        VV("c02.fifo.lemma", "multishot", "composition: any interleaving of appends (kernel) and pops (consumer) delivers exactly the prefix of q0 ++ results, in order, and keeps exactly the rest", [], ["lemma_fifo_push", "lemma_fifo_pop"]),
    ],
}
P["C03"] = {
    "level_text": "Proof of the safety form of 'no lost wake-up': every Pending return of poll_inner leaves the most recent waker stored (or registered as blocked when the queue is full); Shared::update returns that waker exactly when the operation becomes actionable and Completion::process wakes it exactly once; wake_blocked_futures wakes min(free slots, blocked) futures and loses none; a successful kernel entry runs it. All on the real functions, all counters.",
    "level_note": "NOT decided: liveness under real schedulers and the multi-thread queue-full window (waker pushed after another thread's enter already ran wake_blocked_futures, then an ETIME enter that skips it) - see DESIGN.md section 6. Blocked list length <= 2 (bounded) in c03.blocked.*.",
    "functions": [
        {"file": "src/io_uring/op.rs", "fn": r"^fn poll_inner<"},
        {"file": "src/io_uring/op.rs", "fn": r"^fn set_waker\("},
        {"file": "src/io_uring/mod.rs", "fn": r"pub\(crate\) fn wake_blocked_futures\("},
        {"file": "src/io_uring/mod.rs", "fn": r"pub\(crate\) fn enter\("},
    ],
    "trusted_base": OPTRUST,
    "assumptions": ["liveness half of the statement (executor makes progress) is outside contract-based verification: only 'waker invoked by the end of the processing step that made the op ready' is proved"],
    "obligations": op_obl(["poll.not_started", "poll.running.none", "poll.running.same", "poll.running.other", "update.single", "update.multi.live", "process.running", "poll.done.restart", "poll_next.running"]) + [
        K("c03.blocked.wake.1", "uring_mod.rs", U + "c03_blocked_wake_1", "wake_blocked_futures, 1 blocked future, all counters/sizes: woken iff a slot is free, else still registered", ["io_uring::Shared::wake_blocked_futures"], bounded="blocked list length 1"),
        K("c03.blocked.wake.2", "uring_mod.rs", U + "c03_blocked_wake_2", "wake_blocked_futures, 2 blocked futures: wakes min(free, 2), each future woken exactly once or still registered", ["io_uring::Shared::wake_blocked_futures"], bounded="blocked list length 2"),
        K("c03.enter.wakes", "uring_mod.rs", U + "c03_enter_wakes", "Shared::enter: every kernel entry that returns Ok to Ring::poll - also one that merely timed out or was interrupted - runs wake_blocked_futures once, after the system call (a future blocked on a full queue is woken by a subsequent Ring::poll once there is room, even if nothing completes); hard errors go to the caller", ["io_uring::Shared::enter", "io_uring::Shared::wake_blocked_futures"]),
    ],
}
P["C06"] = {
    "level_text": "Proof: OpState::drop from every status (cancel request exactly for Running, targeting exactly this user_data, only if the queue has room; immediate free otherwise), the cancel encoder, the deferred destructor and Shared::update's Drop decision are proved on the real functions for all counters/results; state frees and resource drops are counted by ghost counters (instrumented Args/Resources) so 'exactly once' is an equality, and CBMC's own double-free/use-after-free checks are on.",
    "level_note": "The last step of the abandoned path (process calling the erased destructor through a function pointer) is proved as update(Dropped)=>Drop{own destructor} + drop_state(ptr) separately; see DESIGN.md. Kernel assumed to post the final CQE of every cancelled request.",
    "functions": [
        {"file": "src/io_uring/op.rs", "fn": r"unsafe fn drop\(&mut self, sq: &SubmissionQueue\)"},
        {"file": "src/io_uring/op.rs", "fn": r"unsafe fn drop_state<T, R, A>\("},
        {"file": "src/io_uring/sq.rs", "fn": r"pub\(super\) fn cancel\(&self, user_data: u64\)"},
    ],
    "trusted_base": OPTRUST,
    "assumptions": [],
    "obligations": [K("c06.cancel.encoding", "sq.rs", S + "c06_cancel_encoding", "Submissions::cancel(ud): ASYNC_CANCEL, addr == ud, CANCEL_USER_DATA, CQE_SKIP_SUCCESS, every other byte zero; QueueFull => nothing written", ["io_uring::sq::Submissions::cancel"])]
        + op_obl(["drop.not_started", "drop.running", "drop.running.waker", "drop.done", "drop.done.waker", "drop.complete", "drop.rg.first", "drop.rg.later", "drop_state", "process.dropped", "update.single", "update.multi.dropped", "poll_next.done"]) + [
        K("c05.process.reserved", "cq.rs", C + "c05_process_reserved", "cancel acknowledgements (reserved user_data 2, any result) are ignored", ["io_uring::cq::Completion::process"]),
    ],
}
P["C09"] = {
    "level_text": "Proof: for every stored result and flag value, poll_inner on a finished operation either returns the value/error (never EINTR/ECANCELED) or, for -EINTR/-ECANCELED, re-issues a request that is byte-identical to the first submission, built by the same encoder from the same resources at the same address and the same arguments, keeps nothing of the earlier attempt and reports Pending. The step is proved from an arbitrary pre-state, so any finite sequence of interruptions is a chain of proved steps.",
    "level_note": "Instrumented Op for the generic code; kernel contract that an interruption is the final completion of its submission.",
    "functions": [{"file": "src/io_uring/op.rs", "fn": r"^fn poll_inner<"}],
    "trusted_base": OPTRUST,
    "assumptions": [],
    "obligations": op_obl(["poll.done.restart", "poll.done.ok", "poll.done.err", "poll_next.done", "poll.not_started"]),
}

L = "verif_lib::"
P["C11"] = {
    "level_text": "Proof of every step of the two-flag wake handshake on the real code: PollingState::set_polling / wake are exactly swap / fetch_or with the stated return predicates from every state; Completions::poll announces polling before entering the kernel, turns the wait into a zero-timeout poll iff a wake-up was pending, and clears both flags after the entry on every path; Submissions::wake sends exactly one MSG_RING{WAKE_USER_DATA} (queued before the enter that submits it, retried while the queue is full; synchronously via io_uring_register on single-issuer rings) iff it observed polling-and-not-awoken, and otherwise only sets the flag. Each step is one RMW on one atomic word, so interleavings are sequences of these proved steps.",
    "level_note": "The composition over all interleavings of {P1 set_polling(true), P2 enter, P3 set_polling(false)} with {W1 fetch_or, W2 message} is argued in DESIGN.md section 5/C11 from the per-step contracts (a Verus lemma over the abstract handshake is listed there); per-location coherence of the atomic and kernel delivery of MSG_RING are assumed. 'wake after the Ring is dropped is harmless' is the Arc<Shared> ownership argument (C12).",
    "functions": [
        {"file": "src/lib.rs", "fn": r"pub\(crate\) fn set_polling\(&self, is_polling: bool\)"},
        {"file": "src/lib.rs", "fn": r"pub\(crate\) fn wake\(&self\) -> bool"},
        {"file": "src/io_uring/sq.rs", "fn": r"pub\(crate\) fn wake\(&self\) -> io::Result<\(\)>"},
        {"file": "src/io_uring/cq.rs", "fn": r"pub\(crate\) fn poll\(&mut self, shared: &Shared"},
    ],
    "trusted_base": [KERNEL, SC, KANIBUG, "Shared::wake_blocked_futures replaced by its frame contract inside Shared::enter (proved separately, c03.blocked.*)"],
    "assumptions": ["kernel delivers a MSG_RING completion to a ring blocked in io_uring_enter (io_uring ABI)"],
    "obligations": [
        K("c11.polling_state", "lib_mod.rs", L + "c11_polling_state", "PollingState::set_polling(b) == swap(b): returns old AWOKEN, leaves {polling=b, awoken=false}; wake() == fetch_or(AWOKEN): returns old == POLLING; all 4 states", ["PollingState::set_polling", "PollingState::wake"]),
        K("c11.poll.handshake.1", "cq.rs", C + "c05_poll_empty_1", "Completions::poll on an empty queue: events are exactly [set_polling(true), io_uring_enter, set_polling(false)] on every path (ok/ETIME/EINTR/hard error); timeout forced to zero iff a wake() preceded; flags idle afterwards", ["io_uring::cq::Completions::poll"]),
        K("c11.poll.handshake.2", "cq.rs", C + "c05_poll_empty_2", "same, ring size 2", ["io_uring::cq::Completions::poll"]),
        K("c11.wake.not_polling", "sq.rs", S + "c11_wake_not_polling", "Submissions::wake when no poll is in progress or a wake-up is already pending (states 0,2,3; any ring; single-issuer or not): only AWOKEN is set, no ring entry, no system call", ["io_uring::sq::Submissions::wake"]),
        K("c11.wake.polling", "sq.rs", S + "c11_wake_polling", "Submissions::wake while a poll is in progress, all ring counters: exactly one MSG_RING{fd=ring, addr=IORING_MSG_DATA, off=WAKE_USER_DATA, user_data=WAKE_USER_DATA} is queued before the zero-timeout enter that submits it; with a full queue it first enters to make room and retries", ["io_uring::sq::Submissions::wake", "io_uring::sq::Submissions::add", "io_uring::Shared::enter"]),
        K("c11.wake.single_issuer", "sq.rs", S + "c11_wake_single_issuer", "single-issuer ring: the same message is sent with io_uring_register(-1, SEND_MSG_RING, &sqe, 1); nothing queued on the ring; the error is returned", ["io_uring::sq::Submissions::wake"]),
    ],
}

F = "io_uring::fd::verif_fd::"
N = "io_uring::net::verif_net::"
PI = "io_uring::pipe::verif_pipe::"
IO = "io::verif_io::"
LEDGER = "libc close/mmap/munmap/madvise are the ledger models in kani/env.rs (ASSUMED POSIX behaviour); io_uring_register is the recording kernel model"
P["C07"] = {
    "level_text": "Proof on the real code, all descriptor values and ring counters: the descriptor word round-trips (number, kind); AsyncFd's Drop issues exactly one CLOSE request of exactly that descriptor as its kind (regular: fd; direct: file_index = fd+1; reserved user_data; no success event) or, with a full queue, exactly one close(2) / one REGISTER_FILES_UPDATE{offset=fd,[-1]} and never both; AsyncFd::close consumes the value without running Drop and its operation targets the same (fd, kind); the standard-stream wrappers never close; every descriptor-returning decoder wraps the kernel's descriptor exactly once with the requested / inherited kind.",
    "level_note": "KNOWN FINDING F9 (reproduced against the real kernel, findings/F9): a descriptor delivered to an operation whose future was dropped while in flight is never closed. Accept/Open decoders are covered under C13/C16 where built. Direct indices are assumed < i32::MAX (kernel table limit is 2^20). Ledger models for close/register are assumed.",
    "functions": [
        {"file": "src/io_uring/fd.rs", "fn": r"^    fn drop\(&mut self\)"},
        {"file": "src/fd.rs", "fn": r"pub\(crate\) unsafe fn from_raw\("},
        {"file": "src/fd.rs", "fn": r"pub\(crate\) fn fd\(&self\) -> RawFd"},
        {"file": "src/fd.rs", "fn": r"pub fn kind\(&self\) -> Kind"},
        {"file": "src/io_uring/io.rs", "fn": r"pub\(crate\) fn close_file_fd\("},
        {"file": "src/io_uring/io.rs", "fn": r"pub\(crate\) fn close_direct_fd\("},
        {"file": "src/io/mod.rs", "fn": r"pub fn close\(self\) -> Close"},
    ],
    "trusted_base": [KERNEL, LEDGER, KANIBUG],
    "assumptions": ["'while its Ring exists' - behaviour after the ring is gone is C12"],
    "obligations": [
        K("c07.fd_bits", "fd.rs", F + "c07_fd_bits", "AsyncFd::from_raw(fd, kind).fd() == fd and .kind() == kind for every fd >= 0 and both kinds (sign bit marks direct)", ["fd::AsyncFd::from_raw", "fd::AsyncFd::fd", "fd::AsyncFd::kind"]),
        K("c07.drop", "fd.rs", F + "c07_drop", "Drop for AsyncFd, all counters/fds/kinds: room => exactly one CLOSE{fd | file_index=fd+1, CLOSE_USER_DATA, SKIP_SUCCESS}, rest zero, other entry untouched, no sync close; full => no entry, regular: exactly one close(fd), direct: exactly one REGISTER_FILES_UPDATE{offset=fd, fds=[-1], nr=1} on the ring fd and no close(2)", ["io_uring::fd::<impl Drop for AsyncFd>::drop", "io_uring::io::close_file_fd", "io_uring::io::close_direct_fd"]),
        K("c07.close.consumes", "io_mod.rs", IO + "c07_close_consumes", "AsyncFd::close: nothing queued, nothing closed (Drop not run), Close op args == (fd, kind)", ["io::AsyncFd::close"]),
        K("c07.stdio", "io_mod.rs", IO + "c07_stdio", "dropping Stdin/Stdout/Stderr: no CLOSE request, no close(2), for any queue state", ["io::Stdin/Stdout/Stderr::drop"]),
        K("c07.wrap.socket", "net_uring.rs", N + "c07_wrap_socket", "SocketOp::map_ok: one AsyncFd, fd == kernel result, kind == requested", ["io_uring::net::SocketOp::map_ok"]),
        K("c07.wrap.multishot_accept", "net_uring.rs", N + "c07_wrap_multishot_accept", "MultishotAcceptOp::map_next: one AsyncFd per result, kind inherited from the listener, listener untouched", ["io_uring::net::MultishotAcceptOp::map_next"]),
        K("c07.wrap.open", "fs_uring.rs", "io_uring::fs::verif_fs::c07_wrap_open", "OpenOp::map_ok: one AsyncFd, fd == kernel result, requested kind", ["io_uring::fs::OpenOp::map_ok_extract"]),
        K("c07.wrap.accept", "net_uring.rs", N + "c13_accept", "AcceptOp::map_ok: one AsyncFd of the listener's kind", ["io_uring::net::AcceptOp::map_ok"]),
        K("c07.wrap.pipe", "pipe_uring.rs", PI + "c07_wrap_pipe", "PipeOp::map_ok: both descriptors wrapped once, in order, requested kind", ["io_uring::pipe::PipeOp::map_ok"]),
        K("c07.wrap.to_direct", "fd.rs", F + "c07_wrap_to_direct", "ToDirectOp::map_ok: the index written back becomes one Direct AsyncFd", ["io_uring::fd::ToDirectOp::map_ok"]),
        K("c07.wrap.to_fd", "fd.rs", F + "c07_wrap_to_fd", "ToFdOp: FIXED_FD_INSTALL of this direct descriptor; result one regular AsyncFd; original keeps its descriptor", ["io_uring::fd::ToFdOp::fill_submission", "io_uring::fd::ToFdOp::map_ok"]),
        K("c07.abandoned.socket", "net_uring.rs", N + "c07_abandoned_socket", "descriptor returned for an abandoned (dropped while in flight) socket operation is closed  [KNOWN FINDING F9]", ["io_uring::op::Shared::update", "io_uring::op::drop_state"]),
    ],
}

UIO = "io_uring::io::verif_uio::"
RB = "io::read_buf::verif_read_buf::"
TR = "io::traits::verif_traits::"
NA = "net::verif_netaddr::"
P["C08"] = {
    "level_text": "Proof on the real code: the kernel-chosen buffer id in a completion is turned into an owned slice of exactly that slot (ReadOp/MultishotReadOp decoders, init_buffer); ReadBufPool::release re-offers exactly the slot the pointer belongs to (id recomputed from the unchanged base pointer), writes the entry at tail & mask and advances the 16-bit tail by one, for every tail value incl. the wrap and whatever other releasers did before the lock was obtained, leaving all other ring entries, buffers and canaries untouched; ReadBuf::release/Drop give the buffer back exactly once (Option::take).",
    "level_note": "Pool geometry fixed at 4 buffers x 8 bytes in the harnesses (bounded: the index arithmetic (ptr - base) / buf_size is size-generic; V c08.pool_lemmas covers every size). KNOWN FINDING F10 (same root cause as F9, reproduced on the real kernel: findings/F10): a buffer id delivered to an abandoned pool read is never re-offered - c08.abandoned.read fails with exactly that check (the in-flight ReadBuf, which owns nothing, is held in ManuallyDrop there to keep the pool's teardown out of the formula). ReadBufPool::new/Drop (allocation, registration) are C12/C18-style resource obligations, not yet under contract. Observation outside the tools' reach: release() writes the whole io_uring_buf including `resv`, which for entry 0 overlays the ring tail - the tail is transiently 0 until the final store (visible only to a concurrently reading kernel).",
    "functions": [
        {"file": "src/io_uring/io.rs", "fn": r"pub\(crate\) unsafe fn init_buffer\("},
        {"file": "src/io_uring/io.rs", "fn": r"pub\(crate\) unsafe fn release\(&self, ptr: NonNull<\[u8\]>\)"},
        {"file": "src/io/read_buf.rs", "fn": r"pub fn release\(&mut self\)"},
    ],
    "trusted_base": [KERNEL, SC, MUTEX, KANIBUG],
    "assumptions": ["kernel contract: F_BUFFER => id < pool_size and n <= buf_size", "conservation over whole histories (Kernel + Limbo + Owned is a partition) is the chain of these per-step contracts; the chaining lemma is argued in DESIGN.md, not machine-checked"],
    "obligations": [
        K("c08.init_release.roundtrip", "uio.rs", UIO + "c08_init_release_roundtrip", "init_buffer(id, n) == slot id, n bytes; release(ptr with any edited length) writes (base+id*bs, bs, id) at tail & mask, tail+1 (all u16 tails), other entries/canaries untouched", ["io_uring::io::ReadBufPool::init_buffer", "io_uring::io::ReadBufPool::release"], bounded="pool 4 x 8 bytes"),
        VV("c08.pool_lemmas", "pool", "for EVERY buffer size >= 1, pool size (power of two) and 16-bit tail: (base+id*bs - base)/bs == id (release re-offers the slot init_buffer handed out); slots of distinct ids are disjoint; tail & mask in range and pool_size consecutive releases hit distinct ring entries across the 2^16 wrap", ["(arithmetic used by) io_uring::io::ReadBufPool::release", "io_uring::io::ReadBufPool::init_buffer"], ["lemma_id_roundtrip", "lemma_slots_disjoint", "lemma_tail_slot"]),
        K("c08.release.rg", "uio.rs", UIO + "c08_release_rg", "release under interference at the re-register lock: entry written at the tail observed under the lock, tail advances from there", ["io_uring::io::ReadBufPool::release"], kind="rely-guarantee", bounded="pool 4 x 8 bytes"),
        K("c08.readbuf.release_once", "read_buf.rs", RB + "c08_readbuf_release_once", "ReadBuf::release then release/Drop: exactly one buffer re-offered, and it is this ReadBuf's slot; released ReadBuf owns nothing", ["io::read_buf::ReadBuf::release", "io::read_buf::<impl Drop for ReadBuf>::drop"], bounded="pool 4 x 8 bytes"),
        K("c08.map.read", "uio.rs", UIO + "c13_enc_read_pool", "ReadOp with a pool buffer: BUFFER_SELECT from the pool's group; F_BUFFER id => the ReadBuf owns exactly slot id with len n", ["io_uring::io::ReadOp::fill_submission", "io_uring::io::ReadOp::map_ok", "io::read_buf::ReadBuf::buffer_init"], bounded="pool 4 x 8 bytes"),
        K("c08.pool.new_drop", "uio.rs", UIO + "c08_pool_new_drop", "ReadBufPool::new: PBUF_RING registration of this pool's ring/group, entry i == (base+i*bs, bs, i), tail == pool_size (all buffers offered); refused registration frees and returns the error; Drop unregisters and frees both allocations with the creation layouts", ["io_uring::io::ReadBufPool::new", "io_uring::io::<impl Drop for ReadBufPool>::drop"], bounded="pool_size in {1,2}, buf_size <= 16", tier="thorough"),
        K("c08.abandoned.read", "uio.rs", UIO + "c08_abandoned_read", "a buffer id delivered (IORING_CQE_F_BUFFER) to a pool read whose future was dropped while in flight is re-offered to the kernel  [KNOWN FINDING F10]", ["io_uring::op::Shared::update", "io_uring::op::drop_state"], bounded="pool 4 x 8 bytes"),
        K("c08.map.multishot_read", "uio.rs", UIO + "c08_map_multishot_read", "MultishotReadOp: one ReadBuf per result owning the kernel-chosen slot; no F_BUFFER => empty ReadBuf that gives nothing back", ["io_uring::io::MultishotReadOp::map_next", "io::read_buf::ReadBufPool::new_buffer"], bounded="pool 4 x 8 bytes"),
    ],
}
P["C14"] = {
    "level_text": "Proof on the real trait impls: the generic wrappers (LimitedBuf over BufMut/Buf/BufMutSlice/BufSlice) and the macro-generated tuple impls for EVERY arity 2..=8, plus arrays N<=3, are instantiated with an instrumented buffer whose pointer, capacity and fill level are fully symbolic: pointer/length pairs are the inner buffers' own, lengths/spare capacities agree with them, set_init(n) appends exactly n front to back, and the limit is never exceeded for every limit in the full usize range; Vec<u8> and the read-only buffer types are checked on real allocations.",
    "level_note": "Buffers whose total size exceeds u32::MAX are excluded by precondition (io_uring lengths are u32); arrays [B; N] with N > 3 and String/Box<str>/Arc impls are not run (same one-line bodies as the checked ones); SkipBuf/ReadNBuf wrappers are covered under C10.",
    "functions": [
        {"file": "src/io/traits.rs", "fn": r"unsafe fn parts_mut\(&mut self\) -> \(\*mut u8, u32\) \{\n        // SAFETY: reposibilities"},
    ],
    "trusted_base": [KANIBUG],
    "assumptions": [],
    "obligations": [
        K("c14.limited.bufmut", "traits.rs", TR + "c14_limited_bufmut", "LimitedBuf<B: BufMut>, every usize limit: parts_mut == (inner ptr, min(spare, limit)); spare_capacity/has_spare_capacity agree; set_init(n) appends exactly n and consumes n of the limit", ["io::traits::LimitedBuf::parts_mut", "io::traits::LimitedBuf::set_init", "io::traits::LimitedBuf::spare_capacity", "io::traits::LimitedBuf::has_spare_capacity"]),
        K("c14.limited.buf", "traits.rs", TR + "c14_limited_buf", "LimitedBuf<B: Buf>, every usize limit: parts == (inner ptr, min(len, limit)); len/is_empty agree", ["io::traits::LimitedBuf::parts", "io::traits::LimitedBuf::len", "io::traits::LimitedBuf::is_empty"]),
        K("c14.limited.slice_mut", "traits.rs", TR + "c14_limited_slice_mut", "LimitedBuf over a 2-buffer BufMutSlice: iovecs clamped front to back, total == min(total, limit)", ["io::traits::LimitedBuf::as_iovecs_mut", "io::traits::LimitedBuf::total_spare_capacity"]),
        K("c14.limited.slice", "traits.rs", TR + "c14_limited_slice", "LimitedBuf over a 2-buffer BufSlice likewise", ["io::traits::LimitedBuf::as_iovecs", "io::traits::LimitedBuf::total_len"]),
    ] + [K("c14.tuple.%d" % n, "traits.rs", TR + "c14_tuple_%d" % n, "tuple of %d buffers: iovecs elementwise, totals are sums, set_init(n) fills front to back, exactly n in total" % n, ["io::traits::<impl BufMutSlice/BufSlice for tuples>"], tier="quick") for n in range(2, 9)]
      + [K("c14.array.%d" % n, "traits.rs", TR + "c14_array_%d" % n, "array [B; %d] likewise (generic loops)" % n, ["io::traits::<impl BufMutSlice/BufSlice for [B; N]>"]) for n in (1, 2, 3)] + [
        K("c14.vec", "traits.rs", TR + "c14_vec", "Vec<u8>: parts_mut == uninitialised tail of the allocation; set_init(n) == set_len(len+n), no reallocation; Buf side == initialised prefix", ["io::traits::<impl BufMut for Vec<u8>>", "io::traits::<impl Buf for Vec<u8>>"], bounded="capacity <= 8"),
        K("c14.bufs", "traits.rs", TR + "c14_bufs", "&'static [u8] / &'static str / StaticBuf / Box<[u8]> / Cow<[u8]> / Cow<str>: parts == (own bytes, length), len/is_empty agree", ["io::traits::<impl Buf for ...>"], bounded="length <= 4"),
        K("c14.counting", "traits.rs", "io::traits::verif_traits::c14_counting", "ReadNBuf (byte-counting wrapper of read_n/recv_n, single and 2-buffer vectored): pairs, capacities and request form are the inner buffer's; set_init(n) appends exactly n front to back and records n", ["io::<impl BufMut for ReadNBuf<B>>", "io::<impl BufMutSlice<N> for ReadNBuf<B>>"]),
    ],
}
P["C15"] = {
    "level_category": "other",
    "level_text": "Bounded verification (CBMC, every input for a fixed 8-byte slot; labelled bounded, not counted as proved) of single-step differential contracts on the real ReadBuf methods from an arbitrary valid state (symbolic contents and fill level of a real pool slot placed between a neighbouring slot and canary bytes): remove with every range form equals Vec::drain semantics index by index; truncate/clear/set_len only rewrite the length; extend_from_slice appends in order or refuses without change when it would exceed the slot; spare_capacity_mut is exactly the unused tail; nothing outside the slot is touched and the base pointer (which release uses to recompute the slot) never changes. Any sequence of edits is a chain of these steps.",
    "level_note": "Slot size fixed at 8 bytes (bounded), all fill levels 0..=8 and all positions. Invalid ranges are shown to panic (should_panic harness); 'without modifying anything' after the panic is not observable in Kani. Release-only behaviour of `idx + 1` for usize::MAX bounds (F12) is not decided: Kani checks debug-build semantics where it panics.",
    "functions": [
        {"file": "src/io/read_buf.rs", "fn": r"pub fn remove<R: RangeBounds<usize>>\(&mut self, range: R\)"},
        {"file": "src/io/read_buf.rs", "fn": r"pub fn extend_from_slice\(&mut self, other: &\[u8\]\)"},
        {"file": "src/io/read_buf.rs", "fn": r"pub fn truncate\(&mut self, len: usize\)"},
    ],
    "trusted_base": [KANIBUG],
    "assumptions": [],
    "obligations": [
        K("c15.remove", "read_buf.rs", RB + "c15_remove_range", "ReadBuf::remove for a..b, a..=b, ..b, a.., ..: contents == before[..a] ++ before[b..], len shrinks by b-a; neighbours/canaries/base pointer untouched", ["io::read_buf::ReadBuf::remove"], bounded="slot size 8"),
        K("c15.remove.invalid", "read_buf.rs", RB + "c15_remove_invalid_panics", "start > end or end > len: rejected (panic)", ["io::read_buf::ReadBuf::remove"], bounded="slot size 8"),
        K("c15.len_edits", "read_buf.rs", RB + "c15_len_edits", "truncate / clear / set_len / spare_capacity_mut: new length as for Vec, common prefix unchanged, spare == unused tail of the slot, BufMut view agrees", ["io::read_buf::ReadBuf::truncate", "io::read_buf::ReadBuf::clear", "io::read_buf::ReadBuf::set_len", "io::read_buf::ReadBuf::spare_capacity_mut"], bounded="slot size 8"),
        K("c15.extend", "read_buf.rs", RB + "c15_extend", "extend_from_slice: appended in order when it fits, Err and unchanged when it would exceed the slot", ["io::read_buf::ReadBuf::extend_from_slice"], bounded="slot size 8"),
        K("c10.readnbuf.pool", "uio.rs", UIO + "c10_readnbuf_pool", "repeated reads into one ReadBuf: the second read targets the spare part of the same slot and appends behind the first (arrival order), nothing outside the slot touched", ["io::<impl BufMut for ReadBuf>", "io_uring::io::ReadOp"], bounded="pool 4 x 8 bytes"),
        K("c08.readbuf.release_once", "read_buf.rs", RB + "c08_readbuf_release_once", "the slot given back on release is this ReadBuf's own, whatever its edited length", ["io::read_buf::ReadBuf::release"], bounded="pool 4 x 8 bytes"),
        K("c08.init_release.roundtrip", "uio.rs", UIO + "c08_init_release_roundtrip", "release recomputes the slot from the (unchanged) base pointer for any edited length", ["io_uring::io::ReadBufPool::release"], bounded="pool 4 x 8 bytes"),
    ],
}
P["C16"] = {
    "level_text": "Proof (loop-free, full domain) that every IPv4, IPv6 and either-family address - all address bits, ports, flow labels, scope ids - survives into_storage -> init with the length the kernel reports, and that as_ptr/as_mut_ptr cover exactly the family's struct. Unix-domain path names, abstract names (incl. embedded NULs) and the unnamed address round-trip with the kernel-reported lengths for names up to 4 bytes.",
    "level_note": "Unix names bounded at 4 bytes (the real maximum is 107/108): std's own sockaddr_un code dominates the cost; a 106/107-byte harness was tried and CBMC does not finish (seed n16, which only shows for names >= 106 bytes, is therefore missed - DESIGN.md section 7). F8 (as_ptr always passed sizeof(sockaddr_un): abstract names padded to 107 bytes, unnamed passed as an abstract name) and F14 (kernel-reported length 0 for a datagram from an unbound socket underflowed the path length: SIGSEGV in release builds) were found here, reproduced on the real kernel (findings/F8, findings/F14) and fixed in /repo.",
    "functions": [
        {"file": "src/net.rs", "fn": r"unsafe fn init\(storage: MaybeUninit<Self::Storage>, length: u32\) -> Self \{\n        if length == 0 \{"},
        {"file": "src/net.rs", "fn": r"fn into_storage\(self\) -> Self::Storage \{\n        let mut storage = libc::sockaddr_un \{"},
    ],
    "trusted_base": [KANIBUG, "lengths reported by Linux for AF_UNIX addresses: offsetof(sun_path)+strlen+1 (path), +1+n (abstract), 2 (unnamed; 0 when recvmsg has no source address)"],
    "assumptions": [],
    "obligations": [
        K("c16.v4", "net_mod.rs", NA + "c16_v4", "SocketAddrV4: init(into_storage(a), sizeof(sockaddr_in)) == a for all ip/port; as_ptr/as_mut_ptr == (storage, sizeof(sockaddr_in))", ["net::<impl SocketAddress for SocketAddrV4>"]),
        K("c16.v6", "net_mod.rs", NA + "c16_v6", "SocketAddrV6 likewise incl. flowinfo and scope id", ["net::<impl SocketAddress for SocketAddrV6>"]),
        K("c16.either", "net_mod.rs", NA + "c16_either", "SocketAddr: v4 through the v6-sized storage; as_ptr length is the address' own family size", ["net::<impl SocketAddress for SocketAddr>"]),
        K("c16.unix.path", "net_mod.rs", NA + "c16_unix_path", "Unix path name: init(into_storage(a), offsetof+strlen+1) == a, and with the length excluding the NUL", ["net::<impl SocketAddress for unix::net::SocketAddr>::init", "::into_storage"], bounded="name length <= 4"),
        K("c16.unix.path_len", "net_mod.rs", NA + "c16_unix_path_len", "Unix path name: as_ptr covers the name and its terminator inside the structure; storage NUL-terminated", ["net::<impl SocketAddress for unix::net::SocketAddr>::as_ptr", "::into_storage"], bounded="name length <= 4"),
        K("c16.unix.abstract", "net_mod.rs", NA + "c16_unix_abstract", "Unix abstract name (any bytes): init(into_storage(a), offsetof+1+n) == a", ["net::<impl SocketAddress for unix::net::SocketAddr>::init"], bounded="name length <= 4"),
        K("c16.unix.unnamed", "net_mod.rs", NA + "c16_unix_unnamed", "unnamed address: length passed to the kernel is sizeof(sa_family_t); round-trips with the kernel's length 2", ["net::<impl SocketAddress for unix::net::SocketAddr>::init"]),
        K("c16.unix.unnamed_len0", "net_mod.rs", NA + "c16_unix_unnamed_len0", "kernel-reported length 0 (datagram from an unbound socket, nothing written) decodes to the unnamed address; receive capacity is one whole sockaddr_un inside the storage", ["net::<impl SocketAddress for unix::net::SocketAddr>::init", "::as_mut_ptr"]),
        K("c16.unix.abstract_len", "net_mod.rs", NA + "c16_unix_abstract_len", "length passed to the kernel for an abstract name is offsetof(sun_path)+1+n and the covered bytes are NUL + the name", ["net::<impl SocketAddress for unix::net::SocketAddr>::as_ptr"], bounded="name length <= 4"),
    ],
}

IOM = "io::verif_io::"
C10FN = ["io_uring::op::State::reset"]
P["C10"] = {
    "level_category": "other",
    "level_text": "Bounded verification (CBMC; buffers of <= 16 bytes in real memory, 1 or 2 buffers; every skip/offset/transfer size n incl. 0; every flag value) of the STEP contract of each composite operation on the real poll functions, from an arbitrary intermediate state with the inner operation's final completion forced to Done(n): n == 0 => WriteZero / UnexpectedEof; finished exactly when every byte of every buffer has been transferred (returning the caller's original buffers); otherwise the inner operation is re-armed with the same buffers, skip' = skip+n (vectored: iovecs == the suffix of the concatenation from skip+n, empties anywhere), offset' = offset+n or still the current position, and the caller's flags and zero-copy mode. Any sequence of short transfers is a chain of these steps.",
    "level_note": "Decomposition (DESIGN.md 5): the composite calls itself after state.reset(..); that re-poll is cut by a cfg(kani) switch at its second entry and is covered by op.poll.not_started (first poll submits exactly the encoder's output), the operation's encoder (c13.enc.write/send/recv/read/msg) and c10.skipbuf. The inner operation's poll is replaced by its proved contract (verif_op::poll_contract <= op.poll.*). Inner results < 0 are passed through unchanged (one match arm, not exercised). Arity 2 only for the vectored forms (the loop over iovecs is arity-generic).",
    "functions": [
        {"file": "src/io/mod.rs", "fn": r"^    fn poll_inner\(self: Pin<&mut Self>, ctx: &mut task::Context<'_>\)", "which": 0},
        {"file": "src/io/mod.rs", "fn": r"^    fn poll_inner\(self: Pin<&mut Self>, ctx: &mut task::Context<'_>\)", "which": 1},
        {"file": "src/net.rs", "fn": r"^    fn poll_inner\(self: Pin<&mut Self>, ctx: &mut task::Context<'_>\)", "which": 0},
        {"file": "src/net.rs", "fn": r"^    fn poll_inner\(self: Pin<&mut Self>, ctx: &mut task::Context<'_>\)", "which": 1},
    ],
    "trusted_base": OPTRUST + ["contract switches: op::poll -> verif_op::poll_contract (proved by op.poll.*), composite re-poll cut at second entry, op::fallback -> identity (proved by op.fallback)"],
    "assumptions": [],
    "obligations": [
        K("c10.write_all.step", "io_mod.rs", IOM + "c10_write_all_step", "WriteAll::poll_inner step", ["io::WriteAll::poll_inner"] + C10FN, bounded="buffer <= 16 bytes"),
        K("c10.write_all_vectored.step", "io_mod.rs", IOM + "c10_write_all_vectored_step", "WriteAllVectored::poll_inner step (2 buffers, empties anywhere): Ok iff the unsent suffix is empty", ["io::WriteAllVectored::poll_inner"] + C10FN, bounded="2 buffers <= 16 bytes"),
        K("c10.read_n.step", "io_mod.rs", IOM + "c10_read_n_step", "ReadN::poll step: eof / done iff last >= left / continue with remaining capacity, left - last, offset + last", ["io::ReadN::poll"] + C10FN, bounded="buffer <= 16 bytes"),
        K("c10.readnbuf.pool", "uio.rs", "io_uring::io::verif_uio::c10_readnbuf_pool", "for every kind of read buffer: read_n/recv_n with a ReadBufPool buffer submit the same buffer-select request read() does, the kernel-chosen slot is counted (last_read) and owned, the continuation reads into the rest of that slot", ["io::<impl BufMut for ReadNBuf<B>>", "io_uring::io::ReadOp"], bounded="pool 4 x 8 bytes"),
        K("c10.skipbuf", "io_mod.rs", IOM + "c10_skipbuf", "SkipBuf::parts == (ptr+skip, len-skip), empty when skip >= len", ["io::SkipBuf::parts"], bounded="buffer <= 16 bytes"),
        K("c10.send_all.step", "net_mod.rs", NA + "c10_send_all_step", "SendAll::poll_inner step incl. flags and zero-copy mode on the continuation", ["net::SendAll::poll_inner"] + C10FN, bounded="buffer <= 16 bytes"),
        K("c10.send_all_vectored.step", "net_mod.rs", NA + "c10_send_all_vectored_step", "SendAllVectored::poll_inner step: Ok iff the unsent suffix is empty; flags and zero-copy mode kept", ["net::SendAllVectored::poll_inner"] + C10FN, bounded="2 buffers <= 16 bytes"),
        K("c10.recv_n.step", "net_mod.rs", NA + "c10_recv_n_step", "RecvN::poll step incl. flags on the continuation", ["net::RecvN::poll"] + C10FN, bounded="buffer <= 16 bytes"),
        K("c10.read_n_vectored.step", "io_mod.rs", IOM + "c10_read_n_vectored_step", "ReadNVectored::poll step (2 buffers): eof / done iff last >= left / continue: bytes kept front to back, iovecs over remaining capacity, left - last, offset + last", ["io::ReadNVectored::poll"] + C10FN, bounded="2 buffers <= 16 bytes"),
        K("c10.recv_n_vectored.step", "net_mod.rs", NA + "c10_recv_n_vectored_step", "RecvNVectored::poll step (2 buffers) incl. flags on the continuation", ["net::RecvNVectored::poll"] + C10FN, bounded="2 buffers <= 16 bytes"),
        K("op.poll.not_started", "op.rs", O + "poll_not_started", "the re-poll of a re-armed operation submits exactly its encoder's output", OPFN),
        K("c13.enc.write", "uio.rs", UIO + "c13_enc_write", "WRITE encoder (what the re-poll submits)", ["io_uring::io::WriteOp"]),
        K("op.fallback", "op.rs", O + "op_fallback_other", "op::fallback: errors other than EINVAL pass through unchanged", ["io_uring::op::fallback"]),
    ],
}

CFG = "io_uring::config::verif_config::"
P["C18"] = {
    "level_text": "Proof on the real Config::build_sys, Shared::new and Completions::new: for every configuration (all booleans, all u32 sizes, optional fields) the parameter block passed to io_uring_setup carries exactly the configuration; and with setup succeeding and every later step free to fail independently - any feature mask, each of the three mmaps, each madvise, the direct-descriptor registration - the result is either queues built from exactly what the kernel granted (sizes, offsets, modes) with exactly three mappings live and the ring fd open, or an error with every mapping unmapped with the (address, length) it was mapped with and the ring fd closed exactly once.",
    "level_note": "Kernel answers are modelled (sq_entries in {1,2,4}, cq_entries in {1,2,4,8}, offsets <= 64 so the regions fit the harness memory); mmap/munmap/madvise/close are ledger models; std's OwnedFd::drop is replaced by a recording stub (it calls std's private copy of libc close). `attach` (wq_fd of another ring) is not exercised.",
    "functions": [
        {"file": "src/io_uring/config.rs", "fn": r"pub\(crate\) fn build_sys\(self\)"},
        {"file": "src/io_uring/mod.rs", "fn": r"pub\(crate\) fn new\(rfd: OwnedFd, parameters: &libc::io_uring_params\)"},
        {"file": "src/io_uring/cq.rs", "fn": r"pub\(crate\) fn new\(rfd: RawFd, parameters: &libc::io_uring_params\)"},
        {"file": "src/io_uring/mod.rs", "fn": r"^fn mmap\("},
    ],
    "trusted_base": [KERNEL, LEDGER, KANIBUG, "scan: kani::stub(std::os::fd::OwnedFd::drop -> ledger)"],
    "assumptions": [],
    "obligations": [
        K("c18.params", "config.rs", CFG + "c18_params", "io_uring_params == configuration: flags == SUBMIT_ALL|NO_SQARRAY|(SQPOLL or COOP_TASKRUN)|one bit per option, sizes/cpu/idle in their fields, rest zero; entries argument == sq size; setup error returned, nothing acquired", ["io_uring::config::Config::build_sys"]),
        K("c18.build.ok_or_unwound", "config.rs", CFG + "c18_build_features_ok", "setup ok, required features present; mmap x3 / madvise x3 / FILES2 registration each free to fail: Ok => 3 mappings (exact lengths, ring fd, ABI offsets), queues use the granted sizes/offsets/modes, sparse table of the requested size registered; Err => all mappings unmapped with their own (addr,len), ring fd closed exactly once", ["io_uring::config::Config::build_sys", "io_uring::Shared::new", "io_uring::cq::Completions::new", "io_uring::mmap", "io_uring::munmap"]),
        K("c18.build.feature_missing", "config.rs", CFG + "c18_build_feature_missing", "any of NODROP / SUBMIT_STABLE / RW_CUR_POS / SQPOLL_NONFIXED missing: error, nothing mapped, ring fd closed exactly once", ["io_uring::config::Config::build_sys"]),
        K("c12.shared.new_drop", "uring_mod.rs", U + "c12_shared_new_drop", "Shared::new then Drop (or failing second mapping/madvise): balanced ledger", ["io_uring::Shared::new", "io_uring::<impl Drop for Shared>::drop"]),
        K("c12.completions.new_drop", "cq.rs", C + "c12_completions_new_drop", "Completions::new then Drop (or failing madvise): balanced ledger, never closes the ring fd", ["io_uring::cq::Completions::new", "io_uring::cq::<impl Drop for Completions>::drop"]),
    ],
}
P["C12"] = {
    "level_text": "Proof of per-object resource balance on the real code: Ring drop (Completions::drop) performs flush -> REGISTER_SYNC_CANCEL{ANY|ALL} -> fetch -> process in that order tolerating every error; Shared and Completions unmap exactly the regions they mapped (same address and length) and the ring fd is closed last, exactly once; ReadBufPool unregisters its group and frees both allocations with their creation layouts. Every handle's own drop path (AsyncFd drop, SubmissionQueue::wake, ReadBuf release, operation drop) is proved in harnesses in which no Completions object exists at all, i.e. they only touch memory kept alive by Arc<Shared> / the pool.",
    "level_note": "Permutations of drop order reduce to these per-object contracts because ownership is Arc-shaped (type-level, not re-proved). That every abandoned operation's final completion is posted before the last drain is the kernel contract of REGISTER_SYNC_CANCEL (assumed). Known findings F9/F10 (results delivered to abandoned operations are not disposed of) also affect teardown.",
    "functions": [
        {"file": "src/io_uring/cq.rs", "fn": r"pub\(crate\) fn drop\(&mut self, shared: &Shared\)"},
        {"file": "src/io_uring/mod.rs", "fn": r"^    fn drop\(&mut self\) \{\n        let ptr = self.submissions.cast\(\);"},
    ],
    "trusted_base": [KERNEL, LEDGER, KANIBUG, "scan: kani::stub(std::os::fd::OwnedFd::drop -> ledger)"],
    "assumptions": ["Arc<Shared> keeps the submission mapping and ring fd alive for every handle (Rust ownership)"],
    "obligations": [
        K("c12.cq_drop", "cq.rs", C + "c12_cq_drop", "Completions::drop(shared): enter(flush: min_complete MAX, SQ_WAIT iff kernel thread, 1 s) -> register(SYNC_CANCEL, ANY|ALL, 1 s) -> enter(1, GETEVENTS, 0) -> poll processes what that produced; every step may fail (all errnos) without skipping the later ones", ["io_uring::cq::Completions::drop"]),
        K("c12.shared.new_drop", "uring_mod.rs", U + "c12_shared_new_drop", "Shared: munmap(entries) then munmap(ring) with the mapped lengths, ring fd closed last and once", ["io_uring::<impl Drop for Shared>::drop"]),
        K("c12.shared.drop_flushes", "uring_mod.rs", U + "c12_shared_drop_flushes", "handles may outlive the Ring: requests still queued when the last handle goes away (the CLOSE of an AsyncFd dropped after the Ring) are handed to the kernel before the ring is unmapped and closed; a failing flush does not stop the teardown", ["io_uring::<impl Drop for Shared>", "io_uring::Shared::enter"]),
        K("c12.completions.new_drop", "cq.rs", C + "c12_completions_new_drop", "Completions: munmap(ring, ring_len) once; never closes the fd", ["io_uring::cq::<impl Drop for Completions>::drop"]),
        K("c12.pool.new_drop", "uio.rs", UIO + "c08_pool_new_drop", "ReadBufPool: UNREGISTER_PBUF_RING then dealloc of both allocations with the creation layouts", ["io_uring::io::<impl Drop for ReadBufPool>::drop"], bounded="pool_size in {1,2}", tier="thorough"),
        K("c12.after_ring.asyncfd_drop", "fd.rs", F + "c07_drop", "AsyncFd drop path needs only Arc<Shared> (no Completions exists in the harness)", ["io_uring::fd::<impl Drop for AsyncFd>::drop"]),
        K("c12.after_ring.wake", "sq.rs", S + "c11_wake_not_polling", "SubmissionQueue::wake with no ring polling (e.g. dropped): flag only, no system call, no ring entry", ["io_uring::sq::Submissions::wake"]),
        K("c12.after_ring.readbuf_release", "read_buf.rs", RB + "c08_readbuf_release_once", "ReadBuf release/drop touches only the pool's own memory", ["io::read_buf::ReadBuf::release"], bounded="pool 4 x 8 bytes"),
        K("c12.after_ring.op_drop", "op.rs", O + "drop_running", "dropping a pending operation needs only Arc<Shared> and the operation's own box", ["io_uring::op::State::drop"]),
    ],
}

FS = "io_uring::fs::verif_fs::"
PR = "io_uring::process::verif_process::"
P["C13"] = {
    "level_text": "Proof (loop-free, full argument domain) that every request encoder produces exactly the submission entry the io_uring ABI defines for the corresponding system call - opcode, descriptor, offset/address/length/flag fields from the right arguments, every other byte zero, direct-descriptor slot allocation exactly when a direct descriptor is requested, O_CLOEXEC/SOCK_CLOEXEC for regular ones, IOSQE_FIXED_FILE exactly on direct descriptors - and that every pointer placed in an entry (buffers, iovec arrays, msghdr, address storage, length words, stat/siginfo/option out-buffers, path strings) points into the operation's boxed Resources (C01); decoders return the counts/addresses/option values/descriptors the kernel wrote; builder settings take effect exactly until the first poll.",
    "level_note": "Equality with the kernel's behaviour for each opcode is the assumed io_uring ABI (written out in the harnesses, from io_uring_enter(2) and the kernel uapi header). Generic encoders are instantiated with an instrumented buffer with symbolic pointer/length, SocketAddrV4 / NoAddress addresses, 2 vectored buffers, KeepAlive as the representative socket option. Not under contract: StatOp (uses a `c\"\"` literal Kani 0.68 cannot compile), PollableOp (closure inside poll_next), recv_from single-buffer variant (same code as the vectored one), the synchronous fallbacks (pipe2, getsockname, getsockopt). The decoders of returned socket addresses are the C16 obligations, shared here (c16.v4/v6/either/unix.*).",
    "functions": [
        {"file": "src/io_uring/io.rs", "fn": r"pub\(crate\) fn close_file_fd\("},
        {"file": "src/io_uring/net.rs", "fn": r"^fn fill_recvmsg_submission<A: SocketAddress>\("},
    ],
    "trusted_base": [KANIBUG, "io_uring ABI table (expected entries written in the harnesses)"],
    "assumptions": ["the kernel implements each opcode like the corresponding system call"],
    "obligations": [
        K("c13.enc.read", "uio.rs", UIO + "c13_enc_read", "READ == pread(fd, spare part of buffer, spare capacity, offset | current position); decode appends n", ["io_uring::io::ReadOp"]),
        K("c13.enc.read_pool", "uio.rs", UIO + "c13_enc_read_pool", "pool read: BUFFER_SELECT + group id, no address; decode -> owned slot", ["io_uring::io::ReadOp"]),
        K("c13.enc.read_pool_limited", "uio.rs", UIO + "c13_enc_read_pool_limited", "read(pool.get().limit(n)): still a buffer-select read from the pool's group  [KNOWN FINDING F17]", ["io_uring::io::ReadOp", "io::traits::<impl BufMut for LimitedBuf<B>>"]),
        K("c13.enc.write", "uio.rs", UIO + "c13_enc_write", "WRITE == pwrite(fd, buf, len, offset); extract returns the caller's buffer", ["io_uring::io::WriteOp"]),
        K("c13.enc.vectored", "uio.rs", UIO + "c13_enc_vectored", "READV/WRITEV: iovec array inside Resources, count, offset; decode fills front to back", ["io_uring::io::ReadVectoredOp", "io_uring::io::WriteVectoredOp"]),
        K("c13.enc.splice", "uio.rs", UIO + "c13_enc_splice", "SPLICE both directions", ["io_uring::io::SpliceOp"]),
        K("c13.enc.multishot_read", "uio.rs", UIO + "c08_map_multishot_read", "READ_MULTISHOT with buffer selection", ["io_uring::io::MultishotReadOp"]),
        K("c13.enc.close", "fd.rs", F + "c07_drop", "CLOSE: fd vs file_index = fd+1 (shared encoder close_file_fd)", ["io_uring::io::close_file_fd"]),
        K("c13.enc.to_direct", "fd.rs", F + "c13_enc_to_direct", "FILES_UPDATE(ALLOC)", ["io_uring::fd::ToDirectOp"]),
        K("c13.enc.to_fd", "fd.rs", F + "c07_wrap_to_fd", "FIXED_FD_INSTALL", ["io_uring::fd::ToFdOp"]),
        K("c13.enc.open", "fs_uring.rs", FS + "c13_enc_open", "OPENAT == openat(AT_FDCWD, path, flags, mode)", ["io_uring::fs::OpenOp"]),
        K("c13.enc.paths", "fs_uring.rs", FS + "c13_enc_paths", "MKDIRAT / RENAMEAT (old in addr, new in off) / UNLINKAT (AT_REMOVEDIR iff directory)", ["io_uring::fs::CreateDirOp", "io_uring::fs::RenameOp", "io_uring::fs::DeleteOp"]),
        K("c13.enc.fd_ops", "fs_uring.rs", FS + "c13_enc_fd_ops", "FSYNC(DATASYNC) / FADVISE / FALLOCATE (len in addr, mode in len) / FTRUNCATE", ["io_uring::fs::SyncDataOp", "io_uring::fs::AdviseOp", "io_uring::fs::AllocateOp", "io_uring::fs::TruncateOp"]),
        K("c13.enc.socket", "net_uring.rs", N + "c13_enc_socket", "SOCKET == socket(domain, type|CLOEXEC, protocol)", ["io_uring::net::SocketOp"]),
        K("c13.enc.bind_connect_listen", "net_uring.rs", N + "c13_enc_bind_connect_listen", "BIND (len in addr2) / CONNECT (len in off) / LISTEN", ["io_uring::net::BindOp", "io_uring::net::ConnectOp", "io_uring::net::ListenOp"]),
        K("c13.socket_name", "net_uring.rs", N + "c13_socket_name", "GETSOCKNAME cmd local/peer; decoded address == what the kernel wrote", ["io_uring::net::SocketNameOp"]),
        K("c13.enc.send", "net_uring.rs", N + "c13_enc_send", "SEND / SEND_ZC / with destination address", ["io_uring::net::SendOp", "io_uring::net::SendToOp"]),
        K("c13.enc.msg", "net_uring.rs", N + "c13_enc_msg", "SENDMSG[_ZC] / RECVMSG: msghdr, iovecs, address inside Resources", ["io_uring::net::SendMsgOp", "io_uring::net::RecvFromVectoredOp", "io_uring::net::fill_recvmsg_submission", "unix::MsgHeader::init_send", "unix::MsgHeader::init_recv"]),
        K("c13.enc.recv", "net_uring.rs", N + "c13_enc_recv", "RECV into the spare part of the buffer; SHUTDOWN", ["io_uring::net::RecvOp", "io_uring::net::ShutdownOp"]),
        K("c13.accept", "net_uring.rs", N + "c13_accept", "ACCEPT with address: out-parameters inside Resources; socket of the listener's kind + decoded peer address", ["io_uring::net::AcceptOp"]),
        K("c13.enc.multishot_accept", "net_uring.rs", N + "c13_enc_multishot_accept", "ACCEPT multishot", ["io_uring::net::MultishotAcceptOp"]),
        K("c13.sockopt", "net_uring.rs", N + "c13_sockopt", "GETSOCKOPT / SETSOCKOPT cmds: level, name, length, value pointer inside Resources; decoded value", ["io_uring::net::SocketOptionOp", "io_uring::net::SetSocketOptionOp"]),
        K("c13.enc.pipe", "pipe_uring.rs", PI + "c13_enc_pipe", "PIPE: fd array inside Resources, flags|CLOEXEC", ["io_uring::pipe::PipeOp"]),
        K("c13.enc.waitid", "process_uring.rs", PR + "c13_enc_waitid", "WAITID", ["io_uring::process::WaitIdOp"]),
        K("c13.enc.receive_signal", "process_uring.rs", PR + "c13_enc_receive_signal", "signalfd READ", ["io_uring::process::ReceiveSignalOp"]),
        K("c13.enc.madvise", "process_uring.rs", PR + "c13_enc_madvise", "MADVISE", ["io_uring::mem::AdviseOp"]),
        K("c13.builder_gate", "op.rs", O + "c13_builder_gate", "args_mut/resources_mut are Some exactly while NotStarted", ["io_uring::op::State::args_mut", "io_uring::op::State::resources_mut"]),
        K("c13.fd_target_flags", "op.rs", O + "c13_fd_target_flags", "a request on an AsyncFd carries IOSQE_FIXED_FILE exactly for direct descriptors, on top of the encoder's output and the user_data", ["io_uring::op::<impl OpTarget for AsyncFd>::set_flags", "io_uring::fd::Kind::use_flags"]),
        K("op.poll.not_started", "op.rs", O + "poll_not_started", "the queued entry is exactly the encoder's output (no field lost or added)", OPFN),
    ] + [dict(o) for o in P["C16"]["obligations"] if o["id"] in ("c16.v4", "c16.v6", "c16.either", "c16.unix.unnamed", "c16.unix.unnamed_len0", "c16.unix.abstract_len", "c16.unix.path_len")],
}

def main():
    os.makedirs(os.path.join(V, "obligations"), exist_ok=True)
    for pid, p in P.items():
        if p.get("wip"):
            continue
        p = dict(p)
        p["property"] = pid
        json.dump(p, open(os.path.join(V, "obligations", pid + ".json"), "w"), indent=1)
    print("wrote", sorted(P))

if __name__ == "__main__":
    main()
