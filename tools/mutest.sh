#!/bin/bash
# mutest.sh <patch.diff> <Cxx> [Cxx...] : apply a seeded change to /repo, run the checks, undo it straight afterwards.
P=$1; shift
cd /repo || exit 2
git diff --quiet || { echo "repo dirty"; exit 2; }
git apply "$P" || { echo "patch does not apply"; exit 2; }
for c in "$@"; do
  echo "=== $c with $(basename $(dirname $P))"
  /verif/bin/vcheck $c --tier ${TIER:-quick} 2>&1 | grep -E "VIOLATION|KNOWN-FINDING|UNDECIDED|failed|unknown|tier=" 
  echo "exit=${PIPESTATUS[0]}"
done
git checkout -- . 
git status --short | head
