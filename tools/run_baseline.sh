#!/bin/bash
# Runs the repository's pinned test suite (there are no hooks in /repo, so the guard is always off).
# nextest cannot list the harness=false `signals` test, so the BASELINE fallback (cargo test) is used.
cd /repo || exit 2
LOG=$(mktemp)
timeout 1800 cargo test --workspace --no-fail-fast --offline > "$LOG" 2>&1 < /dev/null
rc=$?
grep -E "^test result|FAILED|panicked" "$LOG" | tail -30
rm -f "$LOG"
exit $rc
