#!/bin/bash
# Run every registered check (quick tier by default) against /repo and refresh evidence/.
cd /verif || exit 2
TIER=${1:-quick}
rc=0
for p in $(python3 -c "import json;print(' '.join(c['property_id'] for c in json.load(open('MANIFEST.json'))['checks']))"); do
  s=$(date +%s)
  bin/vcheck $p --tier $TIER > /tmp/runall.$p.log 2>&1; r=$?
  echo "$p exit=$r $(( $(date +%s) - s ))s $(grep -c KNOWN-FINDING /tmp/runall.$p.log) known; $(grep -E 'tier=' /tmp/runall.$p.log)"
  [ $r -ne 0 ] && rc=1
done
exit $rc
