#!/bin/bash
# seedeval.sh <seed id> <Cxx> [Cxx...] : development helper - run checks against a COPY of /repo with the seeded
# change applied (evidence/replay go to a scratch dir).  The registered way (apply to /repo, run, undo) is mutest.sh.
ID=$1; shift
R=/tmp/seedrepo/$ID
rm -rf "$R"; mkdir -p "$R"; rsync -a --exclude target --exclude .git /repo/ "$R"/
HERE=$PWD
( cd "$R" && git init -q . && git apply $HERE/seeded/$ID/patch.diff ) || { echo "patch does not apply"; exit 2; }
export VERIF_REPO=$R VERIF_EVID_DIR=/tmp/seedrepo/ev.$ID VERIF_REPLAY_DIR=/tmp/seedrepo/rp.$ID
mkdir -p $VERIF_EVID_DIR $VERIF_REPLAY_DIR
for c in "$@"; do
  echo "=== $c with seed $ID (tier ${TIER:-quick})"
  bin/vcheck $c --tier ${TIER:-quick} 2>&1 | grep -E "VIOLATION|KNOWN-FINDING|UNDECIDED|failed|unknown|tier="
  echo "exit=${PIPESTATUS[0]}"
done
rm -rf "$R"
