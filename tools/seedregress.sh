#!/bin/bash
# seedregress.sh : run every stored seed (seeded/*/meta.json: breaks_property) against the current checks on a copy of
# /repo (tools/seedeval.sh) and print one line per seed: CAUGHT / MISSED.  Replays are skipped (VERIF_MAX_REPLAYS=0).
export VERIF_MAX_REPLAYS=0
for d in seeded/[mnpq]*/; do
  id=$(basename $d)
  prop=$(python3 -c "import json;print(json.load(open('$d/meta.json'))['breaks_property'])")
  out=$(tools/seedeval.sh $id $prop 2>&1)
  if echo "$out" | grep -q "^VIOLATION"; then r=CAUGHT; else r=MISSED; fi
  echo "$id $prop $r $(echo "$out" | grep -E '^VIOLATION' | sed 's/.*obligation=//' | tr '\n' ' ')"
done
