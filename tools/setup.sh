#!/bin/bash
# Nothing is pre-built: every check rebuilds from /repo.  Only verify the tools are present.
set -e
command -v cargo-kani >/dev/null
command -v verus >/dev/null
command -v python3 >/dev/null
mkdir -p /verif/evidence /verif/replay
echo "setup ok"
