export VERIF_MAX_REPLAYS=0
for pair in n03:C03 p11:C11 m06:C06 p06:C06 p12:C12 n18:C18 p05:C05 m04:C04 n01:C01; do
  id=${pair%%:*}; prop=${pair##*:}
  out=$(tools/seedeval.sh $id $prop 2>&1)
  if echo "$out" | grep -q "^VIOLATION"; then r=CAUGHT; else r=MISSED; fi
  echo "$id $prop $r $(echo "$out" | grep -E '^VIOLATION' | sed 's/.*obligation=//' | tr '\n' ' ')"
done
