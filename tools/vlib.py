#!/usr/bin/env python3
"""Shared machinery for /verif: scratch copy of /repo, mechanical injection of
contracts/harness modules, Kani and Verus runners, verdicts, evidence, replay.

Exit codes (see DESIGN.md 2.5): 0 = every obligation proved (or only listed
known findings fail), 1 = VIOLATION, 2 = undecided / infrastructure.
"""
import atexit
import hashlib
import json
import os
import re
import resource
import shutil
import subprocess
import sys
import time

VERIF = os.path.dirname(os.path.dirname(os.path.abspath(__file__)))
REPO = os.environ.get("VERIF_REPO", "/repo")
KANI_DIR = os.path.join(VERIF, "kani")
VERUS_DIR = os.path.join(VERIF, "verus")
OBL_DIR = os.path.join(VERIF, "obligations")
EVID_DIR = os.environ.get("VERIF_EVID_DIR") or os.path.join(VERIF, "evidence")
REPLAY_DIR = os.environ.get("VERIF_REPLAY_DIR") or os.path.join(VERIF, "replay")
KNOWN = os.path.join(VERIF, "KNOWN_FINDINGS.txt")

ENV = dict(os.environ)
ENV["CARGO_NET_OFFLINE"] = "true"
ENV.pop("RUSTUP_TOOLCHAIN", None)

MEM_LIMIT = int(os.environ.get("VERIF_MEM_GB", "28")) << 30


class Infra(Exception):
    """Infrastructure problem: exit 2, never a VIOLATION."""


def log(*a):
    print(*a, flush=True)


def sha(s):
    if isinstance(s, str):
        s = s.encode()
    return hashlib.sha256(s).hexdigest()[:16]


# --------------------------------------------------------------------------
# scratch copy + injection
# --------------------------------------------------------------------------

_scratches = []


def _cleanup():
    for d in _scratches:
        shutil.rmtree(d, ignore_errors=True)


atexit.register(_cleanup)


def make_scratch(tag):
    base = os.environ.get("VERIF_SCRATCH_BASE") or os.environ.get("TMPDIR") or "/tmp"
    d = os.path.join(base, "a10v.%s.%d" % (tag, os.getpid()))
    shutil.rmtree(d, ignore_errors=True)
    os.makedirs(d)
    if not os.environ.get("VERIF_KEEP_SCRATCH"):
        _scratches.append(d)
    crate = os.path.join(d, "a10")
    os.makedirs(crate)
    shutil.copytree(os.path.join(REPO, "src"), os.path.join(crate, "src"))
    for f in ("Cargo.toml", "Cargo.lock"):
        shutil.copy(os.path.join(REPO, f), os.path.join(crate, f))
    # tests/ are not copied: drop the [[test]] stanza that names one.
    p = os.path.join(crate, "Cargo.toml")
    s = open(p).read()
    s2 = re.sub(r'\[\[test\]\]\nname\s*=\s*"signals".*?harness\s*=\s*false\n', "", s, flags=re.S)
    # dev-dependencies are only used by tests/ and examples/, which are not copied (std-logger needs the real `log`)
    s2 = re.sub(r"\[dev-dependencies\]\n(?:[^\[\n][^\n]*\n|\n)*", "", s2)
    # `log` -> no-op stand-in (kani/logstub): identical to the verified configuration (no logger, level Off)
    shutil.copytree(os.path.join(KANI_DIR, "logstub"), os.path.join(d, "logstub"))
    s2 += '\n[patch.crates-io]\nlog = { path = "../logstub" }\n'
    open(p, "w").write(s2)
    os.makedirs(os.path.join(crate, ".cargo"))
    open(os.path.join(crate, ".cargo", "config.toml"), "w").write("[net]\noffline = true\n")
    return crate


def find_fn_span(text, sig_regex, which=None):
    """Return (start, body_open, end) character offsets of the fn whose
    signature line matches sig_regex (must be unique unless which given)."""
    ms = list(re.finditer(sig_regex, text, flags=re.M))
    if not ms:
        raise Infra("lost anchor: /%s/ matches nothing" % sig_regex)
    if which is None:
        if len(ms) != 1:
            raise Infra("ambiguous anchor: /%s/ matches %d times" % (sig_regex, len(ms)))
        m = ms[0]
    else:
        if which >= len(ms):
            raise Infra("lost anchor: /%s/ has only %d matches" % (sig_regex, len(ms)))
        m = ms[which]
    start = text.rfind("\n", 0, m.start()) + 1
    # find the opening brace of the body: first '{' at paren/bracket depth 0 after the match start
    i = m.start()
    depth = 0
    n = len(text)
    while i < n:
        c = text[i]
        if c in "([":
            depth += 1
        elif c in ")]":
            depth -= 1
        elif c == "{" and depth == 0:
            break
        elif c == ";" and depth == 0:
            raise Infra("anchor /%s/ is a declaration without body" % sig_regex)
        i += 1
    body_open = i
    end = match_brace(text, body_open)
    return start, body_open, end


def match_brace(text, i):
    """text[i] == '{' ; return index one past the matching '}' (skips strings,
    chars, comments)."""
    assert text[i] == "{"
    depth = 0
    n = len(text)
    while i < n:
        c = text[i]
        if c == "/" and text.startswith("//", i):
            i = text.find("\n", i)
            if i < 0:
                break
            continue
        if c == "/" and text.startswith("/*", i):
            i = text.find("*/", i) + 2
            continue
        if c == '"':
            i += 1
            while text[i] != '"':
                if text[i] == "\\":
                    i += 1
                i += 1
            i += 1
            continue
        if c == "'":
            # char literal or lifetime
            m = re.match(r"'(\\.[^']*|[^'\\])'", text[i:])
            if m:
                i += m.end()
                continue
            i += 1
            continue
        if c == "{":
            depth += 1
        elif c == "}":
            depth -= 1
            if depth == 0:
                return i + 1
        i += 1
    raise Infra("unbalanced braces")


def inject(crate):
    """Apply /verif/kani/inject.json to the scratch crate.  Additions only.
    Returns a list describing every addition (goes to evidence)."""
    spec = json.load(open(os.path.join(KANI_DIR, "inject.json")))
    added = []
    vdir = os.path.join(crate, "verif_kani")
    shutil.copytree(KANI_DIR, vdir)
    # expand the `//@waker_stubs` marker (see kani/env.rs) into the stub attributes
    stubs = "".join("#[kani::stub(%s, crate::verif_env::%s)]\n" % (a, b) for a, b in (
        ("std::task::Waker::wake", "stub_waker_wake"), ("std::task::Waker::wake_by_ref", "stub_waker_wake_by_ref"),
        ("std::task::Waker::drop", "stub_waker_drop")))  # NOTE: stubbing Waker::clone ICEs kani-compiler 0.68; its vtable entry returns RawWaker, a signature no drop glue shares
    for fn in os.listdir(vdir):
        if fn.endswith(".rs"):
            fp = os.path.join(vdir, fn)
            t = open(fp).read()
            t2 = re.sub(r"^[ \t]*//@waker_stubs[ \t]*\n", stubs, t, flags=re.M)
            # Every other harness gets the same stubs: since the last queue handle flushes the submission queue on
            # drop (a10 74d2b0f), any Arc<Shared> drop in the code under test statically reaches enter() and
            # wake_blocked_futures(), i.e. calls through waker vtables, which CBMC resolves by signature.
            out, pos = [], 0
            for m in re.finditer(r"^[ \t]*#\[kani::proof\]", t2, flags=re.M):
                head = t2[max(0, m.start() - 600):m.start()]
                k = max(head.rfind("\n\n"), head.rfind("}\n"))
                if "stub_waker_wake" not in head[k if k >= 0 else 0:]:
                    out.append(t2[pos:m.start()] + stubs)
                    pos = m.start()
            out.append(t2[pos:])
            t2 = "".join(out)
            if t2 != t:
                open(fp, "w").write(t2)
    for m in spec["modules"]:
        host = os.path.join(crate, m["host"])
        if not os.path.exists(host):
            raise Infra("lost anchor: host file %s is gone" % m["host"])
        path = os.path.join(vdir, m["file"])
        with open(host, "a") as f:
            f.write('\n#[cfg(kani)]\n#[path = "%s"]\npub(crate) mod %s;\n' % (path, m["mod"]))
        added.append("module %s appended to %s" % (m["mod"], m["host"]))
    for h in spec.get("body_hooks", []):
        p = os.path.join(crate, h["file"])
        s = open(p).read()
        base = 0
        region = s
        if h.get("in"):
            # restrict the search to the (unique) impl block whose header matches h["in"]
            ms = list(re.finditer(h["in"], s, flags=re.M))
            if len(ms) != 1:
                raise Infra("lost anchor: impl /%s/ matches %d times in %s" % (h["in"], len(ms), h["file"]))
            ib = s.index("{", ms[0].start())
            base = ib
            region = s[ib:match_brace(s, ib)]
        st, bo, en = find_fn_span(region, h["fn"])
        bo += base
        s = s[: bo + 1] + "\n" + h["insert"] + "\n" + s[bo + 1 :]
        open(p, "w").write(s)
        added.append("cfg(kani) hook at top of %s in %s" % (h["fn"], h["file"]))
    for h in spec.get("stmt_hooks", []):
        p = os.path.join(crate, h["file"])
        s = open(p).read()
        n = s.count(h["before"])
        if n != 1:
            raise Infra("lost anchor: statement %r occurs %d times in %s" % (h["before"], n, h["file"]))
        i = s.index(h["before"])
        ls = s.rfind("\n", 0, i) + 1
        s = s[:ls] + h["insert"] + "\n" + s[ls:]
        open(p, "w").write(s)
        added.append("cfg(kani) hook before `%s` in %s" % (h["before"][:50], h["file"]))
    for a in spec.get("attrs", []):
        p = os.path.join(crate, a["file"])
        s = open(p).read()
        st, bo, en = find_fn_span(s, a["fn"])
        # insert above any existing attributes / doc comments directly attached
        ins = "".join(l + "\n" for l in a["lines"])
        s = s[:st] + ins + s[st:]
        open(p, "w").write(s)
        added.append("contract attributes (%d lines) above %s in %s" % (len(a["lines"]), a["fn"], a["file"]))
    for ap in spec.get("append", []):
        p = os.path.join(crate, ap["file"])
        with open(p, "a") as f:
            f.write("\n" + open(os.path.join(KANI_DIR, ap["from"])).read())
        added.append("cfg(kani) items from kani/%s appended to %s" % (ap["from"], ap["file"]))
    for cf in spec.get("crate_attrs", []):
        p = os.path.join(crate, "src/lib.rs")
        s = open(p).read()
        # crate attributes must precede items; put after the leading //! docs
        lines = s.split("\n")
        i = 0
        while i < len(lines) and (lines[i].startswith("//!") or lines[i].strip() == ""):
            i += 1
        lines.insert(i, cf)
        open(p, "w").write("\n".join(lines))
        added.append("crate attribute %s" % cf)
    return added


def fn_fingerprint(relfile, sig_regex, which=None):
    p = os.path.join(REPO, relfile)
    s = open(p).read()
    st, bo, en = find_fn_span(s, sig_regex, which)
    line0 = s.count("\n", 0, st) + 1
    line1 = s.count("\n", 0, en) + 1
    return {"file": relfile, "anchor": sig_regex, "lines": "%d-%d" % (line0, line1), "sha256_16": sha(s[st:en])}


# --------------------------------------------------------------------------
# Kani
# --------------------------------------------------------------------------


def _limits():
    try:
        resource.setrlimit(resource.RLIMIT_AS, (MEM_LIMIT, MEM_LIMIT))
    except Exception:
        pass


UNDECIDED_CATEGORIES = {"unwind", "unsupported_construct", "unwinding"}


def classify_harness(res):
    """res: one entry of verification_results.results.  Returns
    (verdict, failed_checks, cover_stats, note)."""
    failed = []
    undecided = []
    covers = {}
    canaries = {}
    for c in res.get("checks", []):
        st = c.get("status")
        cat = c.get("category", "")
        desc = c.get("description", "")
        if "CANARY:" in desc:
            # reachability witness for harnesses whose cover goals CBMC cannot evaluate (status ERROR on very large
            # formulas): an assertion placed after all real checks that MUST fail; if it holds the harness is vacuous
            # (CBMC may duplicate the statement: a canary is fine if ANY of its instances fails)
            canaries[desc] = canaries.get(desc, False) or st == "Failure"
            continue
        if cat == "cover":
            if st == "Error":
                continue
            # CBMC may duplicate a cover statement (code duplication after branches): a cover is
            # satisfied if any of its instances is.
            key = (desc, c.get("location", {}).get("line"))
            covers[key] = covers.get(key, False) or st == "Satisfied"
            continue
        if st == "Failure":
            if cat in UNDECIDED_CATEGORIES or "unwinding assertion" in desc or "is not currently supported by Kani" in desc or "unsupported" in cat:
                undecided.append(c)
            else:
                failed.append(c)
        elif st in ("SolverError",):
            undecided.append(c)
    cov_sat = len([k for k, v in covers.items() if v])
    cov_unsat = len([k for k, v in covers.items() if not v])
    status = res.get("status")
    canary_ok = len([k for k, v in canaries.items() if v])
    canary_bad = len([k for k, v in canaries.items() if not v])
    if canary_bad and not failed:
        return "unknown", failed, (cov_sat, cov_unsat), "vacuity guard: %d canary assertion(s) did not fail (precondition contradictory or end of harness unreachable)" % canary_bad
    if canary_ok and not failed and not undecided and not cov_unsat:
        return "proved", [], (cov_sat + canary_ok, cov_unsat), ""
    if status == "Success" and failed and not undecided:
        # #[kani::should_panic] harness: Kani reports Success exactly when the expected panic is the only failure
        failed = []
    if failed and not undecided:
        return "failed", failed, (cov_sat, cov_unsat), ""
    if failed and undecided:
        # failures next to an unwinding/unsupported failure are not trustworthy
        return "unknown", failed, (cov_sat, cov_unsat), "failed checks accompanied by undecided ones: " + "; ".join(c["description"] for c in undecided[:3])
    if undecided:
        return "unknown", [], (cov_sat, cov_unsat), "; ".join(c["description"] for c in undecided[:3])
    if status != "Success":
        return "unknown", [], (cov_sat, cov_unsat), "harness status %s without failed checks (timeout/OOM/crash)" % status
    if cov_unsat:
        return "unknown", [], (cov_sat, cov_unsat), "vacuity guard: %d cover(s) not satisfied" % cov_unsat
    if cov_sat == 0:
        return "unknown", [], (cov_sat, cov_unsat), "vacuity guard: harness has no satisfied cover"
    return "proved", [], (cov_sat, cov_unsat), ""


def run_kani(crate, harnesses, timeout_s, jobs, extra=None, logpath=None):
    """Run cargo kani once for the given fully-qualified harness names.
    Returns dict harness -> result record."""
    out_json = os.path.join(os.path.dirname(crate), "kani_out.json")
    if os.path.exists(out_json):
        os.remove(out_json)
    cmd = ["cargo", "kani", "-Z", "unstable-options", "-Z", "function-contracts", "-Z", "stubbing", "-Z", "mem-predicates",
           "--export-json", out_json, "--output-format", "terse", "-j", str(jobs),
           "--harness-timeout", "%ds" % timeout_s, "--default-unwind", "3", "--exact"]
    for h in harnesses:
        cmd += ["--harness", h]
    if extra:
        cmd += extra
    t0 = time.time()
    try:
        p = subprocess.run(cmd, cwd=crate, env=ENV, stdout=subprocess.PIPE, stderr=subprocess.STDOUT,
                           text=True, preexec_fn=_limits, timeout=timeout_s * max(1, (len(harnesses) + jobs - 1) // jobs) + 900)
        out = p.stdout
    except subprocess.TimeoutExpired as e:
        out = (e.stdout or b"").decode(errors="replace") if isinstance(e.stdout, bytes) else (e.stdout or "")
        out += "\n[vcheck] cargo kani timed out as a whole\n"
    wall = time.time() - t0
    if logpath:
        open(logpath, "w").write(out)
    results = {}
    if "error: could not compile" in out or "error[E" in out:
        errs = [l for l in out.split("\n") if l.startswith("error")][:8]
        raise Infra("harness/crate does not compile under Kani (refactor lost an anchor?):\n  " + "\n  ".join(errs))
    data = None
    if os.path.exists(out_json):
        try:
            data = json.load(open(out_json))
        except Exception:
            data = None
    stubs_seen = re.findall(r"- Stub: (\S+)", out)
    if data:
        cb = {c["harness_id"]: c for c in data.get("cbmc", [])}
        for r in data.get("verification_results", {}).get("results", []):
            verdict, failed, cov, note = classify_harness(r)
            st = (cb.get(r["harness_id"]) or {}).get("cbmc_stats") or {}
            results[r["harness_id"]] = {
                "verdict": verdict,
                "failed_checks": [{"description": c["description"], "function": c.get("function"),
                                   "location": "%s:%s" % (c.get("location", {}).get("file"), c.get("location", {}).get("line"))}
                                  for c in failed],
                "covers_satisfied": cov[0], "covers_unsatisfied": cov[1],
                "checks": len(r.get("checks", [])),
                "note": note,
                "wall_s": r.get("duration_ms", 0) / 1000.0,
                "solver_s": round(st.get("runtime_solver_s", 0.0) + st.get("runtime_decision_procedure_s", 0.0), 3),
                "symex_s": round(st.get("runtime_symex_s", 0.0), 3),
                "vccs": st.get("vccs_generated"),
                "backend": "cbmc-6.11+" + (((cb.get(r["harness_id"]) or {}).get("configuration") or {}).get("solver") or "cadical"),
            }
    for h in harnesses:
        if h not in results:
            why = "no result reported"
            if "timed out" in out:
                why = "timed out (limit %ds) or crashed" % timeout_s
            m = re.search(r"no harnesses matched|No proof harnesses", out)
            if m:
                why = "harness not found in crate"
            results[h] = {"verdict": "unknown", "failed_checks": [], "covers_satisfied": 0, "covers_unsatisfied": 0,
                          "checks": 0, "note": why, "wall_s": 0, "solver_s": 0, "symex_s": 0, "vccs": None, "backend": "cbmc-6.11"}
    return results, wall, out, stubs_seen


def kani_concrete_playback(crate, harness, timeout_s):
    """Re-run one failing harness asking for a concrete playback test.
    Returns the generated test text or None."""
    cmd = ["cargo", "kani", "-Z", "unstable-options", "-Z", "function-contracts", "-Z", "stubbing", "-Z", "mem-predicates",
           "-Z", "concrete-playback", "--concrete-playback=print", "--harness-timeout", "%ds" % timeout_s,
           "--default-unwind", "3", "--exact", "--harness", harness]
    try:
        p = subprocess.run(cmd, cwd=crate, env=ENV, stdout=subprocess.PIPE, stderr=subprocess.STDOUT, text=True,
                           preexec_fn=_limits, timeout=timeout_s + 600)
    except subprocess.TimeoutExpired:
        return None, ""
    out = p.stdout
    m = re.search(r"```\n(.*?)```", out, flags=re.S)
    tail = "\n".join(l for l in out.split("\n") if ("Failed Checks" in l or "File:" in l or "VERIFICATION" in l))
    return (m.group(1) if m else None), tail


def native_replay(crate, harness_file_rel, test_text, test_name):
    """Append the playback test to the scratch copy of the harness module and
    run it natively against the real code (cargo kani playback)."""
    p = os.path.join(crate, "verif_kani", harness_file_rel)
    with open(p, "a") as f:
        f.write("\n" + test_text + "\n")
    cmd = ["cargo", "kani", "playback", "-Z", "concrete-playback", "-Z", "mem-predicates", "--lib", "--", test_name, "--nocapture"]
    try:
        r = subprocess.run(cmd, cwd=crate, env=ENV, stdout=subprocess.PIPE, stderr=subprocess.STDOUT, text=True, timeout=1200)
    except subprocess.TimeoutExpired:
        return None, "native replay timed out"
    out = r.stdout
    ran = re.search(r"test result: (\w+)\. (\d+) passed; (\d+) failed", out)
    if not ran:
        return None, out[-3000:]
    reproduced = int(ran.group(3)) > 0
    keep = [l for l in out.split("\n") if "panicked at" in l or "assertion" in l or "test result" in l or l.startswith("test ")]
    return reproduced, "\n".join(keep[-12:])


# --------------------------------------------------------------------------
# Verus
# --------------------------------------------------------------------------


def run_verus(path, timeout_s=300):
    cmd = ["verus", path, "--output-json", "--time", "--multiple-errors", "20"]
    t0 = time.time()
    try:
        p = subprocess.run(cmd, stdout=subprocess.PIPE, stderr=subprocess.PIPE, text=True, timeout=timeout_s,
                           env=dict(os.environ))
    except subprocess.TimeoutExpired:
        return None, "verus timed out", time.time() - t0
    wall = time.time() - t0
    try:
        j = json.loads(p.stdout)
    except Exception:
        # sometimes diagnostics precede the JSON
        m = re.search(r"\{.*\}\s*$", p.stdout, flags=re.S)
        j = json.loads(m.group(0)) if m else None
    return j, p.stderr, wall


# --------------------------------------------------------------------------
# known findings
# --------------------------------------------------------------------------


def load_known():
    known = {}
    fixed = []
    if not os.path.exists(KNOWN):
        return known, fixed
    for line in open(KNOWN):
        line = line.strip()
        if not line or line.startswith("#"):
            continue
        if line.startswith("fixed:"):
            fixed.append(line)
            continue
        if line.startswith("known:"):
            m = re.match(r"known:\s+property=(\S+)\s+obligation=(\S+)\s+check=\"(.*?)\"\s+(.*)", line)
            if not m:
                continue
            known.setdefault((m.group(1), m.group(2)), []).append((m.group(3), m.group(4)))
    return known, fixed
