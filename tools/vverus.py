"""Verus route: mechanical extraction of real a10 functions/items into one generated file per unit.

Template (verus/<unit>.rs.tpl) directives, each on its own line:

  //@item <relfile> /<regex on the item's first line>/
        copies the struct/enum/const/type item verbatim (attributes above it are dropped)
  //@fn <relfile> /<regex on the fn signature line>/ [in=/<regex of an enclosing impl header>/] [ret=<name>]
  //@spec
        <requires / ensures / decreases lines, spliced between signature and body>
  //@end
        copies the fn: signature, then the spec, then the body — token for token, except for the fixed,
        reported list of transformations in TRANSFORMS below.  `ret=r` names the return value
        (`-> T` becomes `-> (r: T)`), which Verus needs to talk about the result.

Anything else in the template (spec fns, proof fns, lemmas, View impls) is written by hand and is spec, not code.
"""
import json
import os
import re

import vlib
from vlib import Infra

TRANSFORMS = [
    "attributes directly above an extracted item/fn are dropped (#[derive], #[allow], #[doc], #[inline], #[repr] is kept)",
    "visibility keywords pub / pub(crate) / pub(super) are dropped from extracted fns (items keep `pub` so specs may mention fields)",
    "statements `log::<level>!(...);`, `asan::...;`, `msan::...;` are dropped (no effect on a10 state in the verified configuration)",
    "`_` parameter patterns are renamed `_pN` (Verus rejects `_` parameters)",
    "`const fn` -> `fn` (Verus does not accept const fn bodies with these features)",
    "`-> T` -> `-> (r: T)` when ret= is given",
    "`Self::CONST` / type paths are untouched; `crate::`-qualified paths must be resolvable in the template (items are extracted next to the fn)",
]


def _strip_vis(sig):
    return re.sub(r"^(\s*)pub(\([a-z]+\))?\s+", r"\1", sig)


def _drop_stmts(body):
    out = []
    lines = body.split("\n")
    i = 0
    dropped = 0
    while i < len(lines):
        l = lines[i]
        if re.match(r"\s*(log::\w+!|asan::\w+|msan::\w+)\(", l):
            # statement may span lines: consume until the line ending with ');'
            j = i
            while not lines[j].rstrip().endswith(");"):
                j += 1
                if j >= len(lines):
                    raise Infra("unterminated log/asan statement in extracted body")
            dropped += 1
            i = j + 1
            continue
        out.append(l)
        i += 1
    return "\n".join(out), dropped


def _rename_underscore_params(sig):
    n = [0]

    def rep(m):
        n[0] += 1
        return "%s_p%d:" % (m.group(1), n[0])

    return re.sub(r"([(,]\s*)_\s*:", rep, sig)


def extract_fn(crate, relfile, sig_regex, inside=None, ret=None):
    text = open(os.path.join(crate, relfile)).read()
    base = 0
    region = text
    if inside:
        ms = list(re.finditer(inside, text, flags=re.M))
        if len(ms) != 1:
            raise Infra("lost anchor: impl /%s/ matches %d times in %s" % (inside, len(ms), relfile))
        bo = text.index("{", ms[0].start())
        en = vlib.match_brace(text, bo)
        base = bo
        region = text[bo:en]
    st, bo, en = vlib.find_fn_span(region, sig_regex)
    sig = region[st:bo].rstrip()
    body = region[bo:en]
    src_hash = vlib.sha(region[st:en])
    sig = _strip_vis(sig)
    sig = re.sub(r"\bconst fn\b", "fn", sig)
    sig = re.sub(r"\bunsafe fn\b", "fn", sig) if False else sig
    sig = _rename_underscore_params(sig)
    if ret:
        sig = re.sub(r"->\s*(.+)$", lambda m: "-> (%s: %s)" % (ret, m.group(1).strip()), sig, flags=re.S)
    body2, dropped = _drop_stmts(body)
    line0 = text.count("\n", 0, base + st) + 1
    return sig, body2, {"file": relfile, "anchor": sig_regex, "line": line0, "source_sha256_16": src_hash,
                        "extracted_sha256_16": vlib.sha(sig + body2), "dropped_statements": dropped}


def extract_item(crate, relfile, regex):
    text = open(os.path.join(crate, relfile)).read()
    ms = list(re.finditer(regex, text, flags=re.M))
    if len(ms) != 1:
        raise Infra("lost anchor: item /%s/ matches %d times in %s" % (regex, len(ms), relfile))
    st = text.rfind("\n", 0, ms[0].start()) + 1
    # item ends at first ';' at depth 0 or at the matching brace
    i = ms[0].start()
    depth = 0
    while True:
        c = text[i]
        if c in "([":
            depth += 1
        elif c in ")]":
            depth -= 1
        elif c == ";" and depth == 0:
            en = i + 1
            break
        elif c == "{" and depth == 0:
            en = vlib.match_brace(text, i)
            break
        i += 1
    item = text[st:en]
    # derives directly above the item are reduced to the ones Verus accepts (Copy, Clone)
    above = text[:st].rstrip().split("\n")
    keep = []
    k = len(above) - 1
    while k >= 0 and (above[k].strip().startswith("#[") or above[k].strip().startswith("///")):
        md = re.match(r"\s*#\[derive\((.*)\)\]", above[k])
        if md:
            ds = [d.strip() for d in md.group(1).split(",")]
            keep = [d for d in ds if d in ("Copy", "Clone")]
        if above[k].strip().startswith("#[repr"):
            item = above[k] + "\n" + item
        k -= 1
    if keep:
        item = "#[derive(%s)]\n" % ", ".join(sorted(keep, reverse=True)) + item
    item = re.sub(r"^(\s*)pub\([a-z]+\)\s+", r"\1pub ", item)
    # fields: pub(crate)/pub(super) -> pub ; private fields stay private
    item = re.sub(r"\bpub\((crate|super)\)\s+", "pub ", item)
    return item, {"file": relfile, "anchor": regex, "line": text.count("\n", 0, st) + 1, "source_sha256_16": vlib.sha(text[st:en])}


def generate(unit, crate, outdir):
    tpl = open(os.path.join(vlib.VERUS_DIR, unit + ".rs.tpl")).read().split("\n")
    out = []
    extracted = []
    i = 0
    while i < len(tpl):
        l = tpl[i]
        m = re.match(r"\s*//@item (\S+) /(.+)/\s*$", l)
        if m:
            item, info = extract_item(crate, m.group(1), m.group(2))
            out.append("// ---- extracted verbatim from %s:%d" % (info["file"], info["line"]))
            out.append(item)
            extracted.append(dict(info, kind="item"))
            i += 1
            continue
        m = re.match(r"\s*//@fn (\S+) (.*)$", l)
        if m:
            rest = m.group(2)
            opts = {}
            mo = re.search(r'\s+in="([^"]*)"', rest)
            if mo:
                opts["in"] = mo.group(1)
                rest = rest[:mo.start()] + rest[mo.end():]
            mo = re.search(r"\s+ret=(\w+)", rest)
            if mo:
                opts["ret"] = mo.group(1)
                rest = rest[:mo.start()] + rest[mo.end():]
            rest = rest.strip()
            if not (rest.startswith("/") and rest.endswith("/")):
                raise Infra("bad //@fn directive: " + l)
            m = (m.group(1), rest[1:-1])
            inside = opts.get("in")
            spec = []
            i += 1
            if i < len(tpl) and tpl[i].strip() == "//@spec":
                i += 1
                while tpl[i].strip() != "//@end":
                    spec.append(tpl[i])
                    i += 1
                i += 1
            sig, body, info = extract_fn(crate, m[0], m[1], inside, opts.get("ret"))
            out.append("// ---- extracted from %s:%d (body sha %s)" % (info["file"], info["line"], info["source_sha256_16"]))
            out.append(sig)
            out.extend(spec)
            out.append(body)
            extracted.append(dict(info, kind="fn"))
            continue
        out.append(l)
        i += 1
    path = os.path.join(outdir, "verus_%s.rs" % unit)
    open(path, "w").write("\n".join(out) + "\n")
    return path, extracted


def run_unit(unit, crate, obligations):
    outdir = os.path.dirname(crate)
    path, extracted = generate(unit, crate, outdir)
    j, stderr, wall = vlib.run_verus(path)
    if os.environ.get("VERIF_KEEP_LOG"):
        import shutil
        shutil.copy(path, os.path.join(vlib.VERIF, "last-verus-%s.rs" % unit))
    res = {}
    if j is None:
        for o in obligations:
            res[o["id"]] = {"verdict": "unknown", "note": "verus produced no JSON: " + stderr[-300:], "wall_s": wall, "backend": "verus+z3"}
        return res
    vr = j.get("verification-results", {})
    fb = {}
    try:
        for mt in j["times-ms"]["smt"]["smt-run-module-times"]:
            for f in mt.get("function-breakdown", []):
                fb[f["function"].split("::", 1)[1] if "::" in f["function"] else f["function"]] = f
    except Exception:
        pass
    if vr.get("encountered-vir-error") or (not fb and not vr.get("success")):
        # the generated file does not type-check / is outside Verus' subset: undecided, never an alarm
        msg = [l for l in stderr.split("\n") if l.startswith("error")][:4]
        for o in obligations:
            res[o["id"]] = {"verdict": "unknown", "note": "verus could not process the extracted code: " + " | ".join(msg), "wall_s": wall, "backend": "verus+z3",
                            "verus_output": stderr[-4000:]}
        return res
    for o in obligations:
        want = o["verus_fns"]
        missing = [f for f in want if f not in fb]
        failed = [f for f in want if f in fb and not fb[f].get("success")]
        t = sum(fb[f].get("time-micros", 0) for f in want if f in fb) / 1e6
        r = {"wall_s": round(wall, 2), "solver_s": round(t, 4), "backend": "verus-0.2026.09.13+z3", "checks": len(want),
             "covers_satisfied": 0, "covers_unsatisfied": 0, "extracted": [e for e in extracted], "note": ""}
        if missing:
            r.update({"verdict": "unknown", "note": "vacuity guard: expected function(s) not reported by verus: %s" % ", ".join(missing)})
        elif failed:
            # pick the error text for these functions
            r.update({"verdict": "failed", "failed_checks": [{"description": "verus: obligation of `%s` not discharged" % f, "function": f, "location": path} for f in failed],
                      "verus_output": stderr[-6000:]})
        else:
            r["verdict"] = "proved"
        res[o["id"]] = r
    return res
