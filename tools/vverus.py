"""Verus route: mechanical extraction of real functions into a generated single file."""
import os, re, json
import vlib
from vlib import Infra

def run_unit(unit, crate, obligations):
    raise Infra("verus route not built yet")
