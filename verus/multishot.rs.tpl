// Verus unit `multishot`: the real result containers of src/io_uring/op.rs, extracted on every run.
// Contract: Multishot is an unbounded FIFO (C02: every result the kernel posted, in order, no loss, no
// duplication); Singleshot keeps the last non-NOTIF result.
use vstd::prelude::*;

verus! {

pub const IORING_CQE_F_NOTIF: u32 = 8;

//@item src/io_uring/op.rs /^pub\(crate\) struct CompletionFlags\(u32\);/
//@item src/io_uring/op.rs /^pub\(crate\) struct CompletionResult \{/
//@item src/io_uring/op.rs /^pub\(crate\) struct Multishot\(Vec<CompletionResult>\);/
//@item src/io_uring/op.rs /^pub\(crate\) struct Singleshot\(CompletionResult\);/

mod libc {
    pub const IORING_CQE_F_NOTIF: u32 = 8;
}

impl Multishot {
    /// Abstract view: the queue of results not yet handed to the consumer, oldest first.
    pub closed spec fn view(&self) -> Seq<CompletionResult> {
        self.0@
    }

//@fn src/io_uring/op.rs /fn update\(&mut self, result: CompletionResult, _: u32\)/ in="^impl OpResult for Multishot \{"
//@spec
        ensures
            final(self).view() == old(self).view().push(result),
//@end

//@fn src/io_uring/op.rs /fn next\(&mut self\) -> Option<CompletionResult>/ in="^impl OpResult for Multishot \{" ret=r
//@spec
        ensures
            old(self).view().len() == 0 ==> r.is_none() && final(self).view() == old(self).view(),
            old(self).view().len() > 0 ==> r == Some(old(self).view()[0]) && final(self).view() == old(self).view().skip(1),
//@end

//@fn src/io_uring/op.rs /fn has_next\(&self\) -> bool/ in="^impl OpResult for Multishot \{" ret=r
//@spec
        ensures
            r == (self.view().len() != 0),
//@end
}

impl Singleshot {
    pub closed spec fn view(&self) -> CompletionResult {
        self.0
    }

//@fn src/io_uring/op.rs /fn update\(&mut self, result: CompletionResult, completion_flags: u32\)/ in="^impl OpResult for Singleshot \{"
//@spec
        ensures
            completion_flags & IORING_CQE_F_NOTIF != 0 ==> final(self).view() == old(self).view(),
            completion_flags & IORING_CQE_F_NOTIF == 0 ==> final(self).view() == result,
//@end

//@fn src/io_uring/op.rs /fn next\(&mut self\) -> Option<CompletionResult>/ in="^impl OpResult for Singleshot \{" ret=r
//@spec
        ensures
            r == Some(old(self).view()),
            final(self).view() == old(self).view(),
//@end
}

/// C02 composition lemma: starting from any queue `q0`, after the kernel's results `rs` were appended (in order)
/// and `k <= |q0 ++ rs|` of them consumed from the front, the consumer has seen exactly the first k elements of
/// `q0 ++ rs` in order and the queue holds exactly the rest: no loss, no duplication, no reordering.
pub open spec fn fifo_after(q0: Seq<CompletionResult>, rs: Seq<CompletionResult>, k: int) -> Seq<CompletionResult> {
    (q0 + rs).skip(k)
}

proof fn lemma_fifo_push(q0: Seq<CompletionResult>, rs: Seq<CompletionResult>, r: CompletionResult, k: int)
    requires
        0 <= k <= q0.len() + rs.len(),
    ensures
        fifo_after(q0, rs, k).push(r) == fifo_after(q0, rs.push(r), k),
{
    assert((q0 + rs).push(r) == q0 + rs.push(r));
    assert((q0 + rs).skip(k).push(r) == (q0 + rs).push(r).skip(k));
}

proof fn lemma_fifo_pop(q0: Seq<CompletionResult>, rs: Seq<CompletionResult>, k: int)
    requires
        0 <= k < q0.len() + rs.len(),
    ensures
        fifo_after(q0, rs, k)[0] == (q0 + rs)[k],
        fifo_after(q0, rs, k).skip(1) == fifo_after(q0, rs, k + 1),
{
    assert((q0 + rs).skip(k).skip(1) == (q0 + rs).skip(k + 1));
}

} // verus!

fn main() {}
