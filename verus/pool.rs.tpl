// Verus unit `pool`: size-generic arithmetic of the ReadBufPool buffer ring (the Kani obligations run the real code
// for a pool of 4 x 8 bytes only).
use vstd::prelude::*;

verus! {

/// `release` recomputes the buffer id as (ptr - bufs_addr) / buf_size; `init_buffer` produced ptr = bufs_addr + id*bs.
/// For EVERY buffer size >= 1 and every id the recomputation returns the id, and the slot base is what is re-offered.
proof fn lemma_id_roundtrip(base: nat, bs: nat, id: nat)
    requires
        bs >= 1,
    ensures
        ((base + id * bs) - base) as nat / bs == id,
        base + (((base + id * bs) - base) as nat / bs) * bs == base + id * bs,
{
    assert(((base + id * bs) - base) as nat == id * bs);
    assert((id * bs) / bs == id) by (nonlinear_arith)
        requires bs >= 1;
}

/// Editing the owned slice never changes its base pointer, and any length <= bs keeps the recomputed id:
/// (ptr + off - base) / bs == id for 0 <= off < bs is NOT needed (release uses the base pointer), but distinct ids
/// give disjoint slots:
proof fn lemma_slots_disjoint(base: nat, bs: nat, i: nat, j: nat)
    requires
        bs >= 1,
        i < j,
    ensures
        base + i * bs + bs <= base + j * bs,
{
    assert(i * bs + bs <= j * bs) by (nonlinear_arith)
        requires bs >= 1, i < j;
}

/// Ring slot of the 16-bit tail: in range for every power-of-two pool size <= 2^15, and `pool_size` consecutive
/// releases hit `pool_size` distinct slots (no entry still unconsumed by the kernel is overwritten), incl. across
/// the 2^16 wrap of the tail.
proof fn lemma_tail_slot(tail: u16, d: u16, size: u16)
    requires
        size != 0 && size & sub(size, 1) == 0,
        0 < d < size,
    ensures
        (tail & sub(size, 1)) < size,
        (tail & sub(size, 1)) != (add(tail, d) & sub(size, 1)),
{
    assert(size != 0 && size & sub(size, 1) == 0 ==> (tail & sub(size, 1)) < size) by (bit_vector);
    assert(size != 0 && size & sub(size, 1) == 0 && 0 < d && d < size ==> (tail & sub(size, 1)) != (add(tail, d) & sub(size, 1))) by (bit_vector);
}

} // verus!

fn main() {}
