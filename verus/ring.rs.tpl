// Verus unit `ring`: index arithmetic of the submission / completion rings for EVERY power-of-two size and
// EVERY 32-bit counter value (the Kani obligations run the real loops for sizes <= 8 only).
use vstd::prelude::*;

verus! {

pub open spec fn pow2(len: u32) -> bool {
    len != 0 && len & sub(len, 1) == 0
}

/// slot(t) = t & (len - 1) is always inside the ring.
proof fn lemma_slot_in_range(t: u32, len: u32)
    requires
        pow2(len),
    ensures
        (t & sub(len, 1)) < len,
{
    assert(len != 0 && len & sub(len, 1) == 0 ==> (t & sub(len, 1)) < len) by (bit_vector);
}

/// Two counters less than `len` apart never share a slot: the entry written at `tail` (when fewer than `len`
/// entries are outstanding) is not one of the unconsumed entries, also across the 2^32 wrap.
proof fn lemma_slots_distinct(t: u32, d: u32, len: u32)
    requires
        pow2(len),
        0 < d < len,
    ensures
        (t & sub(len, 1)) != (add(t, d) & sub(len, 1)),
{
    assert(len != 0 && len & sub(len, 1) == 0 && 0 < d && d < len ==> (t & sub(len, 1)) != (add(t, d) & sub(len, 1))) by (bit_vector);
}

/// The wrapping difference is the true number of outstanding entries whenever that number is < 2^32,
/// whatever the absolute (mathematical, unbounded) counter values are.  `wrapping_sub(a, b)` is by definition
/// `(a - b) mod 2^32`; a = T mod 2^32, b = H mod 2^32.
proof fn lemma_wrapping_count(h_true: nat, t_true: nat)
    requires
        h_true <= t_true,
        t_true - h_true < 0x1_0000_0000,
    ensures
        ((t_true % 0x1_0000_0000) as int - (h_true % 0x1_0000_0000) as int) % 0x1_0000_0000 == t_true - h_true,
{
    let m = 0x1_0000_0000int;
    let d = (t_true - h_true) as int;
    vstd::arithmetic::div_mod::lemma_sub_mod_noop(t_true as int, h_true as int, m);
    vstd::arithmetic::div_mod::lemma_small_mod(d as nat, m as nat);
}

/// Advancing a counter by one with wrapping arithmetic keeps `tail -w head` in step with the true count.
proof fn lemma_advance(h: u32, t: u32, len: u32)
    requires
        pow2(len),
        sub(t, h) < len,
    ensures
        sub(add(t, 1), h) == sub(t, h) + 1,
        sub(add(t, 1), h) <= len,
{
    assert(sub(t, h) < len ==> sub(add(t, 1u32), h) == add(sub(t, h), 1u32)) by (bit_vector);
}

/// Consumer side (completion queue): walking head -> tail with wrapping increments visits exactly
/// `tail -w head` slots and ends at tail.
proof fn lemma_walk(h: u32, n: u32)
    ensures
        sub(add(h, n), h) == n,
{
    assert(sub(add(h, n), h) == n) by (bit_vector);
}

} // verus!

fn main() {}
